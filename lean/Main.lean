import LibconfigModel.Step
import LibconfigModel.ReadFault
import LibconfigModel.Containers
import LibconfigModel.WF
import LibconfigModel.Locale
import LibconfigModel.LocaleThreads
import LibconfigModel.Alloc
import LibconfigModel.Cpp   -- C17
/-
  Line-protocol driver: one operation per line on stdin, one canonical line on
  stdout.  The C harness (harness/drv_api.c) executes the same lines on the real
  library; tools/check.py diffs the two streams.
-/
open Libconfig


def hexNib (c : Char) : Option Nat :=
  if '0' ≤ c ∧ c ≤ '9' then some (c.toNat - 48)
  else if 'a' ≤ c ∧ c ≤ 'f' then some (c.toNat - 87)
  else if 'A' ≤ c ∧ c ≤ 'F' then some (c.toNat - 55)
  else none

def unhex (s : String) : Option Bytes :=
  let rec go : List Char → List Nat → Option Bytes
    | [], acc => some acc.reverse
    | [_], _ => none
    | a :: b :: r, acc =>
      match hexNib a, hexNib b with
      | some x, some y => go r ((x * 16 + y) :: acc)
      | _, _ => none
  if s == "" || s == "=" then some [] else go s.toList []

/-- `-` = NULL, `=` = empty string, otherwise hex -/
def unhexOpt (s : String) : Option (Option Bytes) :=
  if s == "-" then some none
  else if s == "=" then some (some [])
  else (unhex s).map some

def hexDigit (n : Nat) : Char := if n < 10 then Char.ofNat (48 + n) else Char.ofNat (87 + n)

def hex (b : Bytes) : String :=
  if b.isEmpty then "=" else String.ofList (b.flatMap fun c => [hexDigit (c / 16 % 16), hexDigit (c % 16)])

def hexOpt : Option Bytes → String
  | none => "-"
  | some b => hex b

def hex64 (n : Nat) : String :=
  String.ofList ((List.range 16).map fun i => hexDigit (n / 16 ^ (15 - i) % 16))

def parsePath (s : String) : Option Path :=
  if s == "/" then some []
  else
    let parts := (s.splitOn "/").drop 1
    parts.mapM (·.toNat?)

def showPath (p : Path) : String :=
  if p.isEmpty then "/" else String.join (p.map fun i => "/" ++ toString i)

def showOptPath : Option Path → String
  | none => "null"
  | some p => showPath p

def showLog (l : List Nat) : String := "[" ++ ",".intercalate (l.map toString) ++ "]"

partial def dumpNode (n : Node) : String :=
  let v :=
    if n.ty == T_INT || n.ty == T_INT64 || n.ty == T_BOOL then toString n.ival
    else if n.ty == T_FLOAT then hex64 n.fval
    else if n.ty == T_STRING then hexOpt n.sval
    else if n.isAggregate then "[" ++ ",".intercalate (n.kids.map dumpNode) ++ "]"
    else "-"
  "(" ++ hexOpt n.name ++ "," ++ toString n.ty ++ "," ++ toString n.fmt ++ "," ++ v ++ "," ++
    toString n.hook ++ "," ++ toString n.line ++ "," ++ hexOpt n.file ++ ")"

def dumpCfg (c : Config) : String :=
  s!"cfg opts={c.options} tab={c.tabWidth} prec={c.floatPrecision} dfmt={c.defaultFormat} " ++
  s!"incdir={hexOpt c.includeDir} dtor={if c.destructor then 1 else 0} hook={c.hook} " ++
  s!"files=[{",".intercalate (c.filenames.map hex)}] root={dumpNode c.root}"

def b2s (b : Bool) : String := if b then "1" else "0"

def parseKind : String → Option Kind
  | "int" => some .int | "int64" => some .int64 | "float" => some .float
  | "bool" => some .bool | "string" => some .string | _ => none

def bitsOfHex (s : String) : Option Nat := (unhex s).map fun b => b.foldl (fun a x => a * 256 + x) 0

/-- parse one protocol line into an operation -/
def parseOp (w : List String) : Option Op :=
  match w with
  | ["add", p, name, ty] => do some (.add (← parsePath p) (← unhexOpt name) (← ty.toInt?))
  | ["remove", p, name] => do some (.remove (← parsePath p) (← unhexOpt name))
  | ["remove_elem", p, idx] => do some (.removeElem (← parsePath p) (← idx.toNat?))
  | ["set_int", p, v] => do some (.setInt (← parsePath p) (← v.toInt?))
  | ["set_int64", p, v] => do some (.setInt64 (← parsePath p) (← v.toInt?))
  | ["set_float", p, v] => do some (.setFloat (← parsePath p) (← bitsOfHex v))
  | ["set_bool", p, v] => do some (.setBool (← parsePath p) (← v.toInt?))
  | ["set_string", p, v] => do some (.setString (← parsePath p) (← unhexOpt v))
  | ["set_int_elem", p, i, v] => do some (.setIntElem (← parsePath p) (← i.toInt?) (← v.toInt?))
  | ["set_int64_elem", p, i, v] => do some (.setInt64Elem (← parsePath p) (← i.toInt?) (← v.toInt?))
  | ["set_float_elem", p, i, v] => do some (.setFloatElem (← parsePath p) (← i.toInt?) (← bitsOfHex v))
  | ["set_bool_elem", p, i, v] => do some (.setBoolElem (← parsePath p) (← i.toInt?) (← v.toInt?))
  | ["set_string_elem", p, i, v] => do some (.setStringElem (← parsePath p) (← i.toInt?) (← unhexOpt v))
  | ["set_format", p, f] => do some (.setFormat (← parsePath p) (← f.toNat?))
  | ["set_hook", p, h] => do some (.setHook (← parsePath p) (← h.toNat?))
  | ["set_options", n] => do some (.setOptions (← n.toNat?))
  | ["set_option", o, f] => do some (.setOption (← o.toNat?) ((← f.toNat?) != 0))
  | ["set_tab_width", n] => do some (.setTabWidth (← n.toNat?))
  | ["set_float_precision", n] => do some (.setFloatPrecision (← n.toNat?))
  | ["set_default_format", n] => do some (.setDefaultFormat (← n.toNat?))
  | ["set_include_dir", d] => do some (.setIncludeDir (← unhexOpt d))
  | ["set_include_fn", n] => do some (.setIncludeFn (← n.toNat?))
  | ["set_destructor", n] => do some (.setDestructor ((← n.toNat?) != 0))
  | ["set_config_hook", n] => do some (.setConfigHook (← n.toNat?))
  | ["clear"] => some .clear
  | ["destroy"] => some .destroy
  | ["read_string", s] => do some (.read (.string (← unhex s)))
  | ["read_stream", s] => do some (.read (.stream (← unhex s)))
  | ["read_chunked", _, s] => do some (.read (.stream (← unhex s)))
  | ["read_eintr", _, _, s] => do some (.read (.stream (← unhex s)))   -- an interrupted and resumed delivery is a delivery
  | ["read_file", p] => do some (.read (.file (← unhex p)))
  | ["get", k, p] => do some (.get (← parseKind k) (← parsePath p))
  | ["get_elem_val", k, p, i] => do some (.getElemVal (← parseKind k) (← parsePath p) (← i.toInt?))
  | ["lookup_val", k, p, name] => do some (.lookupVal (← parseKind k) (← parsePath p) (← unhexOpt name))
  | ["clookup_val", k, path] => do some (.clookupVal (← parseKind k) (← unhex path))
  | ["lookup", p, path] => do some (.lookup (← parsePath p) (← unhex path))
  | ["get_elem", p, i] => do some (.getElem (← parsePath p) (← i.toNat?))
  | ["get_member", p, name] => do some (.getMember (← parsePath p) (← unhexOpt name))
  | ["length", p] => do some (.length (← parsePath p))
  | ["index", p] => do some (.index (← parsePath p))
  | ["get_format", p] => do some (.getFormat (← parsePath p))
  | ["get_option", o] => do some (.getOption (← o.toNat?))
  | ["write"] => some .write
  | ["write_file", p] => do some (.writeFile (← unhex p))
  | ["cat", p] => do some (.cat (← unhex p))
  | ["mkfile", p, c] => do some (.mkfile (← unhex p) (← unhex c))
  | ["mkdir", p] => do some (.mkdir (← unhex p))
  | ["rmfile", p] => do some (.rmfile (← unhex p))
  | _ => none

def showVal : Val → String
  | .int v => toString v
  | .float b => hex64 b
  | .str s => hexOpt s
  | .unspec => "unspec"

/-- canonical text of an operation's result (the same text the C harness prints) -/
def showOut (op : Op) (o : Out) : String :=
  let withLog (s : String) := s!"{s} {showLog o.log}"
  match op, o.res with
  | _, .badOp => "bad-op"
  | .add .., .ptr p => withLog (showOptPath p)
  | .setHook .., .unit => withLog "ok"
  | .remove .., .flag b => withLog (b2s b)
  | .removeElem .., .flag b => withLog (b2s b)
  | .clear, _ => withLog "ok"
  | .destroy, _ => withLog "ok"
  | .read _, .readResult r =>
    withLog (match r with
      | .accept => "1" | .abort => "0" | .exhausted => "0" | .crash => "crash"
      | .echo b => s!"echo-{b}" | .outOfFuel => "out-of-fuel")
  | _, .unit => "ok"
  | _, .flag b => b2s b
  | _, .ptr p => showOptPath p
  | _, .val v => showVal v
  | _, .optVal none => "0"
  | _, .optVal (some .unspec) => "unspec"
  | _, .optVal (some v) => s!"1 {showVal v}"
  | _, .nat n => toString n
  | _, .bytes b => hex b
  | _, .readResult _ => "?"

-- BEGIN C17
/-! The `cpp …` lines: the C++ API model of LibconfigModel/Cpp.lean.  The text printed here is
the part of the harness line (harness/drv_cpp.cc) before ` | c `. -/

def parseCKind : String → Option Cpp.CKind
  | "bool" => some .bool | "int" => some .int | "uint" => some .uint | "long" => some .long
  | "ulong" => some .ulong | "int64" => some .int64 | "uint64" => some .uint64 | "double" => some .double
  | "float" => some .float | "cstr" => some .cstr | "string" => some .string | _ => none

/-- kinds that have a `lookupValue` overload -/
def parseLvKind (k : String) : Option Cpp.CKind :=
  if k == "long" || k == "ulong" then none else parseCKind k

def parseAVal (k v : String) : Option Cpp.AVal :=
  match k with
  | "bool" => do some (.bool ((← v.toInt?) != 0))
  | "int" => do some (.int (← v.toInt?))
  | "long" => do some (.long (← v.toInt?))
  | "int64" => do some (.int64 (← v.toInt?))
  | "double" => do some (.double (← bitsOfHex v))
  | "float" => do some (.float (← bitsOfHex v))
  | "cstr" => do some (.cstr (← unhexOpt v))
  | "string" => do some (.string (← unhex v))
  | _ => none

def parseCppOp (w : List String) : Option Cpp.CppOp :=
  let S (p : String) (op : Cpp.SOp) : Option Cpp.CppOp := do some (.setting (← parsePath p) op)
  match w with
  | ["init"] => some .init
  | ["clear"] => some .clear
  | ["read_string", s] => do some (.read (.string (← unhex s)))
  | ["read_stream", s] => do some (.read (.stream (← unhex s)))
  | ["read_file", p] => do some (.read (.file (← unhex p)))
  | ["write_file", p] => do some (.writeFile (← unhex p))
  | ["write"] => some .write
  | ["clookup", path] => do some (.lookup (← unhex path))
  | ["cexists", path] => do some (.exists_ (← unhex path))
  | ["clookup_value", k, path] => do some (.lookupValue (← parseLvKind k) (← unhex path))
  | ["get_root"] => some .getRoot
  | ["set_options", n] => do some (.setOptions (← n.toNat?))
  | ["get_options"] => some .getOptions
  | ["set_option", o, f] => do some (.setOption (← o.toNat?) ((← f.toNat?) != 0))
  | ["get_option", o] => do some (.getOption (← o.toNat?))
  | ["set_auto_convert", f] => do some (.setAutoConvert ((← f.toNat?) != 0))
  | ["get_auto_convert"] => some .getAutoConvert
  | ["set_tab_width", n] => do some (.setTabWidth (← n.toNat?))
  | ["get_tab_width"] => some .getTabWidth
  | ["set_float_precision", n] => do some (.setFloatPrecision (← n.toNat?))
  | ["get_float_precision"] => some .getFloatPrecision
  | ["set_default_format", n] => do some (.setDefaultFormat (← n.toNat?))
  | ["get_default_format"] => some .getDefaultFormat
  | ["set_include_dir", d] => do some (.setIncludeDir (← unhexOpt d))
  | ["get_include_dir"] => some .getIncludeDir
  | ["wrappers"] => some .wrappers
  | ["cast", k, p] => do S p (.cast (← parseCKind k))
  | ["assign", k, p, v] => do S p (.assign (← parseAVal k v))
  | ["lookup", p, path] => do S p (.lookup (← unhex path))
  | ["member", p, name] => do S p (.member (← unhexOpt name))
  | ["elem", p, i] => do S p (.elem (← i.toInt?))
  | ["lookup_value", k, p, name] => do S p (.lookupValue (← parseLvKind k) (← unhexOpt name))
  | ["exists", p, name] => do S p (.exists_ (← unhexOpt name))
  | ["add", p, name, ty] => do S p (.add (← unhexOpt name) (← ty.toNat?))
  | ["add_elem", p, ty] => do S p (.addElem (← ty.toNat?))
  | ["remove", p, name] => do S p (.remove (← unhexOpt name))
  | ["remove_idx", p, idx] => do S p (.removeIdx (← idx.toNat?))
  | ["info", p] => S p .info
  | ["get_path", p] => S p .getPath
  | ["get_parent", p] => S p .getParent
  | ["set_format", p, f] => do S p (.setFormat (← f.toNat?))
  | ["iterate", p] => S p .iterate
  | ["citerate", p] => S p .iterate
  | _ => none

def showExc : Cpp.Exc → String
  | .settingNotFound p => "E:SettingNotFoundException:" ++ hex p
  | .settingType p => "E:SettingTypeException:" ++ hex p
  | .settingRange p => "E:SettingRangeException:" ++ hex p
  | .settingName p => "E:SettingNameException:" ++ hex p
  | .parse f l t => s!"E:ParseException:{hexOpt f}:{l}:{hexOpt t}"
  | .fileIO => "E:FileIOException"
  | .badAlloc => "E:bad_alloc"

def showCppVal : Cpp.CppVal → String
  | .unit => "ok"
  | .bool b => b2s b
  | .int v => toString v
  | .dbl b => hex64 b
  | .cstr s => hexOpt s
  | .text s => hex s
  | .setting p => showPath p
  | .order l d => "iter " ++ (if l.isEmpty then "-" else ",".intercalate (l.map toString)) ++ s!" dist {d}"
  | .info i =>
    s!"{i.length} {hexOpt i.name} {i.index} {i.type} {i.format} {b2s i.isRoot} {b2s i.isGroup} {b2s i.isArray} " ++
    s!"{b2s i.isList} {b2s i.isAggregate} {b2s i.isScalar} {b2s i.isNumber} {b2s i.isString} {i.line} {hexOpt i.file}"
  | .unspec => "unspec"

/-- operations whose line reports the wrappers deleted -/
def cppShowsFreed : Cpp.CppOp → Bool
  | .init | .clear | .read _ => true
  | .setting _ (.add ..) | .setting _ (.addElem _) | .setting _ (.remove _) | .setting _ (.removeIdx _) => true
  | _ => false

def showCppOut (op : Cpp.CppOp) (o : Cpp.Out) : String :=
  let freed := if cppShowsFreed op then s!" freed {o.freed.length}" else ""
  match o.res with
  | .badOp => "bad-op"
  | .ok v => showCppVal v ++ freed
  | .found none => "0" ++ freed
  | .found (some v) => "1 " ++ showCppVal v ++ freed
  | .exc e => showExc e ++ freed
  | .undefined => "undefined" ++ freed

def cppLine (st : State) (w : List String) : State × String :=
  match w with
  | ["overloads", _] => (st, "ok")      -- which of two equivalent overloads the harness calls
  | ["read_string_ioerr", p, t] =>
    -- Config::readString of a text that includes a file which opens but whose read fails: FileIOException
    match unhex p, unhex t with
    | some p, some t =>
      let r := readWithFailingFile st.world st.cfg (.string t) p [] readFuel
      let out : Cpp.Out := { res := Cpp.throwIfError r.cfg, freed := r.dtorLog }
      (st.withCfg r.cfg, showCppOut (.read (.string t)) out)
    | _, _ => (st, "bad-op")
  | ["init_multi"] =>
    -- a subclass of Config whose evaluateIncludePath is the harness's multi-path function (include function 1)
    let (st', o) := Cpp.cppStep st .init
    (st'.withCfg { st'.cfg with includeFn := 1 }, showCppOut .init o)
  | [b, k, n] =>
    if b == "badalloc" || b == "badalloc_long" then
      -- C13, C++ part: the k-th of n allocation requests fails; the fatal-error handler throws std::bad_alloc
      match k.toInt?, n.toNat? with
      | some k, some n =>
        if k < 0 then (st, "count")
        else
          match runAllocs (List.replicate n Act.alloc) (some k.toNat) 0 with
          | .fatal _ => (st, "bad_alloc")
          | .normal _ => (st, "normal-same")
      | _, _ => (st, "bad-op")
    else
      match parseCppOp w with
      | none => (st, "bad-op")
      | some op => let (st', o) := Cpp.cppStep st op; (st', showCppOut op o)
  | _ =>
    match parseCppOp w with
    | none => (st, "bad-op")
    | some op => let (st', o) := Cpp.cppStep st op; (st', showCppOut op o)
-- END C17
-- BEGIN C03
/-! driver side of the C03 harness ops (`battery`, `deepnest`, `leakcheck`, `cov`): the same steps
as `c03_battery` / `c03_deepnest` in harness/drv_api.c, executed on the model -/

def fnvStep (h : UInt64) (b : UInt8) : UInt64 := (h ^^^ b.toUInt64) * 0x100000001b3
def fnvInit : UInt64 := 0xcbf29ce484222325
def fnvBytes (b : Bytes) : UInt64 := b.foldl (fun h x => fnvStep h x.toUInt8) fnvInit
def fnvString (s : String) : UInt64 := s.toUTF8.foldl fnvStep fnvInit
def hex16 (h : UInt64) : String := hex64 h.toNat

/-- (number of settings, depth) -/
partial def c03Shape (n : Node) : Nat × Nat :=
  n.kids.foldl (fun (acc : Nat × Nat) k => let (m, d) := c03Shape k; (acc.1 + m, max acc.2 (d + 1))) (1, 0)

/-- length of the longest setting name -/
partial def c03MaxName (n : Node) : Nat :=
  n.kids.foldl (fun acc k => max acc (c03MaxName k)) (match n.name with | some nm => nm.length | none => 0)

/-- the text `deepnest <kind> <levels> <closed>` reads -/
def deepNestText (kind : String) (levels : Nat) (closed : Bool) : Option Bytes :=
  let mk (pre opn mid cls post : String) : Bytes :=
    let rep (t : String) : Bytes := (List.replicate levels (bytesOfString t)).flatten
    bytesOfString pre ++ rep opn ++ bytesOfString mid ++
      (if closed then rep cls ++ bytesOfString post else [])
  match kind with
  | "list" => some (mk "a=" "(" "" ")" ";")
  | "group" => some (mk "" "a={" "" "}" "")
  | "array" => some (mk "a=" "([1,2]," "0" ")" ";")
  | "mixed" => some (mk "a=(" "{b=(" "" ")}" ");")
  | _ => none

/-- path components and index path of the chain of first children -/
partial def c03Spine (n : Node) (comps : List Bytes) (rel : Path) : List Bytes × Path :=
  match n.kids with
  | [] => (comps.reverse, rel.reverse)
  | k :: _ => c03Spine k ((match k.name with | some nm => nm | none => [91, 48, 93]) :: comps) (0 :: rel)

def c03WriteDigest (c : Config) : String :=
  if (c03Shape c.root).2 ≤ 64 then
    let b := c.write Generated.FLOAT_BUF_SIZE
    s!"{b.length}:{hex16 (fnvBytes b)}"
  else "skip"

def c03Battery (st : State) : State × String :=
  let c := st.cfg
  let (n, d) := c03Shape c.root
  let lookup := if d ≤ 8 && n ≤ 400 && c03MaxName c.root ≤ 200 then
      (if lookupAllFrom 64 c.root then "ok" else "FAIL") else "skip"
  let (comps, rel) := c03Spine c.root [] []
  let path : Bytes := (comps.intersperse [46]).flatten
  let spine := if path.isEmpty || lookupFrom c.root path == some rel then "ok" else "FAIL"
  let head := s!"battery d={d} n={n} dump={hex16 (fnvString (dumpCfg c))} wf={if c.wfb then "ok" else "FAIL"} " ++
    s!"lookup={lookup} spine={spine} w1={c03WriteDigest c}"
  let flagOf (o : Out) : Int := match o.res with | .flag true => 1 | .flag false => 0 | _ => -1
  let (st, r1) := if st.cfg.root.kids.length > 0 then
      let (s', o) := step st (.removeElem [] 0); (s', flagOf o) else (st, -1)
  let (st, r2) := if st.cfg.root.kids.length > 0 then
      let (s', o) := step st (.removeElem [] (st.cfg.root.kids.length - 1)); (s', flagOf o) else (st, -1)
  let addSet (st : State) (name : String) (ty : Int) (setOp : Path → Op) : State × Int :=
    match step st (.add [] (some (bytesOfString name)) ty) with
    | (s', { res := .ptr (some p), .. }) => let (s'', o) := step s' (setOp p); (s'', flagOf o)
    | (s', _) => (s', -1)
  let (st, a1) := addSet st "zz_c03" 2 (fun p => .setInt p 42)
  let (st, a2) := addSet st "zz_c03s" 5 (fun p => .setString p (some (bytesOfString "battery \"q\"\n")))
  let w2 := c03WriteDigest st.cfg
  let get : String := match clookupVal .int st.cfg (bytesOfString "zz_c03") with
    | some (.int v) => toString v
    | some .unspec => "unspec"
    | _ => "-1"
  let (st, o) := step st (.read (.string (bytesOfString "x = 1; y = ( 1, \"two\", { z = 3.5; } );")))
  let rr := match o.res with | .readResult .accept => "1" | .readResult _ => "0" | _ => "?"
  let n2 := (c03Shape st.cfg.root).1
  let (st, _) := step st .clear
  (st, head ++ s!" rm={r1},{r2} set={a1},{a2} w2={w2} get={get} reread={rr}:{n2} clear={st.cfg.root.kids.length}")

def c03Line (st : State) (w : List String) : Option (State × String) :=
  match w with
  | ["battery"] => some (c03Battery st)
  | ["leakcheck3"] => some (st, "leakcheck 0")     -- the model has no heap
  | ["cov"] => some (st, "cov 0")                  -- never compared
  | ["read_stream_fail", _, d] =>
    match unhex d with
    | some d =>
      let r := readFailingStream st.world st.cfg d readFuel
      some (st.withCfg r.cfg, s!"0 {showLog r.dtorLog}")
    | none => some (st, "bad-op")
  | ["read_stream_fail1", _, d] =>       -- the failure is transient (EOF afterwards): the outcome is the same
    match unhex d with
    | some d =>
      let r := readFailingStream st.world st.cfg d readFuel
      some (st.withCfg r.cfg, s!"0 {showLog r.dtorLog}")
    | none => some (st, "bad-op")
  | ["read_stream_eagain", d] =>
    match unhex d with
    | some d =>
      let r := readFailingStream st.world st.cfg d readFuel
      some (st.withCfg r.cfg, s!"0 {showLog r.dtorLog}")
    | none => some (st, "bad-op")
  | ["probe_badfile", _] => some (st, "probe")       -- never compared
  | ["read_file_ioerr", p] =>
    match unhex p with
    | some p =>
      let r := readWithFailingFile st.world st.cfg (.file p) p [] readFuel
      some (st.withCfg r.cfg, s!"0 {showLog r.dtorLog}")
    | none => some (st, "bad-op")
  | ["read_string_ioerr", p, t] =>
    match unhex p, unhex t with
    | some p, some t =>
      let r := readWithFailingFile st.world st.cfg (.string t) p [] readFuel
      some (st.withCfg r.cfg, s!"0 {showLog r.dtorLog}")
    | _, _ => some (st, "bad-op")
  | ["deepnest", kind, levels, closed] =>
    match levels.toNat?, closed.toNat? with
    | some levels, some closed =>
      match deepNestText kind levels (closed != 0) with
      | some text =>
        if levels > 100000 then some (st, "bad-op") else
        let op := Op.read (.string text)
        let (st', o) := step st op
        some (st', showOut op o)
      | none => some (st, "bad-op")
    | _, _ => some (st, "bad-op")
  | _ => none
-- END C03

def stepLine (st : State) (w : List String) : State × String :=
  let c := st.cfg
  match w with
  | "cpp" :: rest => cppLine st rest   -- C17
  | ["init"] => ({ st with cfg := Config.init }, "ok")
  | ["reset_world"] => ({ st with world := {} }, "ok")
  | ["info", p] =>
    match parsePath p with
    | some p =>
      match c.root.get? p with
      | some n => (st, s!"{n.ty} {hexOpt n.name} {b2s p.isEmpty} {b2s (isScalarTy n.ty)} {b2s n.isAggregate} {n.line} {hexOpt n.file} {n.hook}")
      | none => (st, "bad-op")
    | none => (st, "bad-op")
  | ["err"] => (st, s!"{c.errType} {hexOpt c.errText} {hexOpt c.errFile} {c.errLine}")
  | ["errio"] => (st, s!"{c.errType} {hexOpt c.errText} {hexOpt c.errFile} {c.errLine}")   -- compared by the direct oracle only (C03 failing streams)
  | ["loccase", g, t, entry, text] =>
    -- C15: read + write + write_file/read_file round trip under a locale set-up
    match g.toNat?, t.toNat?, unhex text with
    | some g, some t, some text =>
      let l : LocaleState := { globalRadix := if g != 0 then 44 else 46, thread := if t != 0 then some 44 else none }
      let src : Source := match entry with
        | "string" => .string text
        | "stream" => .stream text
        | _ => .file (bytesOfString "in.cfg")
      let w : World := { files := [(bytesOfString "in.cfg", some text)] }
      -- every number is parsed / formatted with the radix the thread sees between override and restore
      let (r, l1) := withCLocale l fun radix =>
        let r := match entry with
          | "failstream" => readFailingStream w Config.init text readFuel
          | "badfile" => readWithFailingFile w Config.init (.file (bytesOfString "/proc/self/mem")) (bytesOfString "/proc/self/mem") [] readFuel
          | "missing" => read w Config.init (.file (bytesOfString "no-such-file.cfg")) readFuel
          | _ => read w Config.init src readFuel
        (r, applyRadix radix (r.cfg.write Generated.FLOAT_BUF_SIZE))
      let (rd, out) := r
      let (r2, l2) := withCLocale l1 fun radix =>
        let r2 := read { files := [(bytesOfString "out.cfg", some out)] } Config.init (.file (bytesOfString "out.cfg")) readFuel
        (r2.ok, applyRadix radix (r2.cfg.write Generated.FLOAT_BUF_SIZE))
      (st, s!"{b2s rd.ok} {hex out} {b2s r2.1} {b2s (r2.2 == out)} {b2s (l2.thread == l.thread)} {b2s (l2.globalRadix == l.globalRadix)} {l.effective} {l2.effective}")
    | _, _, _ => (st, "bad-op")
  | ["loccase", g, t, entry, text, o, pr] =>
    -- the same with an option word and a float precision set on both configurations before the calls
    -- C15: read + write + write_file/read_file round trip under a locale set-up
    match g.toNat?, t.toNat?, unhex text, o.toNat?, pr.toNat? with
    | some g, some t, some text, some o, some pr =>
      let c0 : Config := { Config.init with options := o % 4294967296, floatPrecision := pr }
      let l : LocaleState := { globalRadix := if g != 0 then 44 else 46, thread := if t != 0 then some 44 else none }
      let src : Source := match entry with
        | "string" => .string text
        | "stream" => .stream text
        | _ => .file (bytesOfString "in.cfg")
      let w : World := { files := [(bytesOfString "in.cfg", some text)] }
      -- every number is parsed / formatted with the radix the thread sees between override and restore
      let (r, l1) := withCLocale l fun radix =>
        let r := match entry with
          | "failstream" => readFailingStream w c0 text readFuel
          | "badfile" => readWithFailingFile w c0 (.file (bytesOfString "/proc/self/mem")) (bytesOfString "/proc/self/mem") [] readFuel
          | "missing" => read w c0 (.file (bytesOfString "no-such-file.cfg")) readFuel
          | _ => read w c0 src readFuel
        (r, applyRadix radix (r.cfg.write Generated.FLOAT_BUF_SIZE))
      let (rd, out) := r
      let (r2, l2) := withCLocale l1 fun radix =>
        let r2 := read { files := [(bytesOfString "out.cfg", some out)] } c0 (.file (bytesOfString "out.cfg")) readFuel
        (r2.ok, applyRadix radix (r2.cfg.write Generated.FLOAT_BUF_SIZE))
      (st, s!"{b2s rd.ok} {hex out} {b2s r2.1} {b2s (r2.2 == out)} {b2s (l2.thread == l.thread)} {b2s (l2.globalRadix == l.globalRadix)} {l.effective} {l2.effective}")
    | _, _, _, _, _ => (st, "bad-op")
  | ["locoverlap", g, t] =>
    -- C15 x C14: the multi-thread locale model (LocaleThreads.lean; theorems C15T_inside / C15T_outer / C15T_global) run on
    -- the scenario's schedule; the radix each thread has at each point decides what strtod reads and what printf writes
    let gr := if g == "1" then 44 else 46
    let th : Nat → Option Nat := fun _ => if t == "1" then some 44 else none
    let M0 := MTLocale.idle gr th
    let sch := MTLocale.overlapSchedule
    let inRead := (M0.run (sch.take 2)).effective 1
    let inWrite := (M0.run (sch.take 4)).effective 1
    let inA := (M0.run (sch.take 5)).effective 0
    let fin := M0.run sch
    let kept := fin.thread 0 == th 0 && fin.thread 1 == th 1 && fin.globalRadix == gr
    -- strtod stops at a '.' that is not the radix character
    let val (r whole frac : Nat) : Nat := if r == 46 then whole * 1000 + frac else whole * 1000
    (st, s!"1 {val inA 7 750} 1 {val inRead 1 500} {val inRead 2 250} " ++
         hex (applyRadix inWrite (bytesOfString "a = 1.5;\nb = 2.25;\n")) ++ (if kept then " 1" else " 0"))
  | ["allochooks", k] =>
    -- C16 x C13: every hook attached is released exactly once by the time the configuration is destroyed, whichever
    -- allocation failed and jumped out of the library (C16_conservation + C16_destroy: the log of an operation and
    -- of the final destroy partition the hooks; an interrupted call leaves each setting either still in the tree or
    -- already destroyed)
    (st, if k.startsWith "-" then "count 0" else "hooks ok")
  | ["allocdouble", _, k, n] =>
    -- two failures in one process: each of them reaches the handler (C13_kth applies to each run)
    match k.toNat?, n.toNat? with
    | some k, some n =>
      (match runAllocs (List.replicate n Act.alloc) (some k) 0 with
       | .fatal _ => (st, "handler handler")
       | .normal _ => (st, "MISSING"))
    | _, _ => (st, "bad-op")
  | ["alloccase", _, k, n] =>
    -- C13: the k-th of n allocation requests (all through checked wrappers) fails
    match k.toInt?, n.toNat? with
    | some k, some n =>
      if k < 0 then (st, "count")
      else
        match runAllocs (List.replicate n Act.alloc) (some k.toNat) 0 with
        | .fatal _ => (st, "handler")
        | .normal _ => (st, "normal-same")
    | _, _ => (st, "bad-op")
  | ["thrstress", _, _] => (st, "ok")         -- C14_serial on the writer's rare rendering paths, repeated
  | ["thrcase", _, _, _] => (st, "ok")
  | ["thrcase", _, _, _, _] => (st, "ok")     -- C14_serial: every thread's transcript equals its serial transcript
  | ["lex", text] =>
    -- the token stream of yylex on a string (same format as the harness)
    match unhex text with
    | some text =>
      let T := Generated.tokens
      let rec go (fuel : Nat) (s : ScanState) (acc : String) : String :=
        match fuel with
        | 0 => acc ++ "fuel"
        | fuel + 1 =>
          match yylex Generated.scanner Generated.scanActions st.world { fn := 0, dir := none } readFuel s with
          | (s', .tok t v) =>
            let val :=
              if t == T.string || t == T.name then ":" ++ hex v.sval
              else if t == T.boolean || t == T.integer || t == T.hex || t == T.integer64 || t == T.hex64 then s!":{v.ival}"
              else if t == T.float then ":" ++ hex64 v.fval
              else ""
            go fuel s' (acc ++ s!"{t}{val}@{s'.buf.lineno} ")
          | (_, .eof) => acc ++ "eof"
          | (s', .includeError t _ _ _) => go fuel s' (acc ++ s!"{t}@{s'.buf.lineno} ")
          | (_, .echo b) => acc ++ s!"echo-{b}"
          | (_, .outOfFuel) => acc ++ "out-of-fuel"
      (st, go 100001 { buf := { rest := cstr text } } "")
    | none => (st, "bad-op")
  | ["lexx", fn, text] =>
    -- as lex, over all bytes of the text (NUL included) and with include function `fn`
    match unhex text, fn.toNat? with
    | some text, some fn =>
      let T := Generated.tokens
      let rec goX (fuel : Nat) (s : ScanState) (acc : String) : String :=
        match fuel with
        | 0 => acc ++ "fuel"
        | fuel + 1 =>
          match yylex Generated.scanner Generated.scanActions st.world { fn := fn, dir := none } readFuel s with
          | (s', .tok t v) =>
            let val :=
              if t == T.string || t == T.name then ":" ++ hex v.sval
              else if t == T.boolean || t == T.integer || t == T.hex || t == T.integer64 || t == T.hex64 then s!":{v.ival}"
              else if t == T.float then ":" ++ hex64 v.fval
              else ""
            goX fuel s' (acc ++ s!"{t}{val}@{s'.buf.lineno} ")
          | (_, .eof) => acc ++ "eof"
          | (s', .includeError t _ _ _) => goX fuel s' (acc ++ s!"{t}@{s'.buf.lineno} ")
          | (_, .echo b) => acc ++ s!"echo-{b}"
          | (_, .outOfFuel) => acc ++ "out-of-fuel"
      (st, goX 100001 { buf := { rest := text } } "")
    | _, _ => (st, "bad-op")
  | ["wfcase", text, fsync, kind, param] =>
    -- C12: parse a configuration, then config_write_file under the I/O faults the kind denotes
    match unhex text, fsync.toNat?, param.toNat? with
    | some text, some fsync, some param =>
      let c0 := (read {} Config.init (.string text) readFuel).cfg
      let c0 := c0.setOption OPT_FSYNC (fsync != 0)
      let out := c0.write Generated.FLOAT_BUF_SIZE
      let io : IOFaults :=
        match kind with
        | "fsize" => { writeOk := decide (out.length ≤ param) }
        | "devfull" => { writeOk := out.isEmpty, fsyncOk := false }  -- fsync on a character device fails (EINVAL)
        | "nodir" => { openOk := false }
        | "isdir" => { openOk := false }
        | "readonly" => { openOk := false }
        | "fsyncfail" => { fsyncOk := false }
        | "fclosefail" => { closeOk := false }
        | _ => {}
      let r := writeFile Generated.FLOAT_BUF_SIZE c0 io
      let disk := if r.ret && kind != "devfull" then (match r.fileBytes with | some b => hex b | none => "-") else "-"
      (st, s!"{b2s r.ret} {r.cfg.errType} {disk} {out.length}")
    | _, _, _ => (st, "bad-op")
  | ["dump"] => (st, dumpCfg c)
  | ["wf"] => (st, if c.wfb then "wf ok" else "wf FAIL")
  | ["lookup_all"] => (st, if lookupAllFrom 64 c.root then "lookup_all ok" else "lookup_all FAIL")
  -- BEGIN C1011
  -- Resource observations of C10/C11.  The harness prints the change in the number of open
  -- descriptors since `fdmark`, and whether LeakSanitizer found an unreachable block; the model's
  -- answers are what theorem C11_balanced proves for every read: nothing stays open, nothing leaks.
  | ["fdmark"] => (st, "ok")
  | ["fdcount"] => (st, "0")      -- C11_balanced: (ledger (read …).events).opened = [] for every read
  | ["leakcheck"] => (st, "0")    -- C11_balanced: … .bufs = 0 (flex/bison/libc internals: LeakSanitizer only)
  | ["read_stream_keep", s] =>
    -- config_read on the caller's stream, which the caller then examines and closes itself: the
    -- model replays the read's I/O events on the ledger (Read.lean) and checks that it is balanced
    -- and that every event names an include file (C11_caller_stream_untouched)
    match unhex s with
    | some text =>
      let r := read st.world c (.stream text) readFuel
      let named := r.events.all fun e => match e.path with
        | some p => r.cfg.filenames.contains p
        | none => true
      let res := match r.result with
        | .accept => "1" | .abort => "0" | .exhausted => "0" | .crash => "crash"
        | .echo b => s!"echo-{b}" | .outOfFuel => "out-of-fuel"
      ({ st with cfg := r.cfg },
       s!"{res} {showLog r.dtorLog} {if (ledger r.events).balanced && named then "stream-ok" else "stream-bad"}")
    | none => (st, "bad-op")
  -- END C1011
  -- C16: library-owned strings passed back in; strings handed out (the model has value semantics:
  -- passing a string back is an ordinary assignment of the current value, a held string never changes)
  | ["set_string_self", p] =>
    match parsePath p with
    | some path =>
      match c.root.get? path with
      | some n =>
        let op := Op.setString path (if n.ty == T_STRING then n.sval else none)
        let (st', o) := step st op
        (st', showOut op o)
      | none => (st, "bad-op")
    | none => (st, "bad-op")
  | ["set_include_dir_self"] =>
    let op := Op.setIncludeDir c.includeDir
    let (st', o) := step st op
    (st', showOut op o)
  | ["add_self", p, ty] =>
    match parsePath p, ty.toInt? with
    | some path, some ty =>
      match c.root.get? path, path.isEmpty with
      | some n, false =>
        let op := Op.add path.dropLast n.name ty
        let (st', o) := step st op
        (st', showOut op o)
      | _, _ => (st, "bad-op")
    | _, _ => (st, "bad-op")
  | ["read_fifo", t] =>
    -- config_read_file on a FIFO delivering these bytes: a file of that name with that content (C20: the same result)
    match unhex t with
    | some t =>
      let (st1, _) := step st (Op.mkfile (bytesOfString "in.cfg") t)
      let op := Op.read (.file (bytesOfString "in.cfg"))
      let (st', o) := step st1 op
      (st', showOut op o)
    | none => (st, "bad-op")
  | ["read_alias", how, what] =>
    -- config_read_file / config_read_string whose argument is owned by the configuration (config_error_file(), a string
    -- value): the argument is copied before the old contents go, so it is an ordinary read of those bytes
    let arg : Option Bytes :=
      if what == "errfile" then c.errFile
      else match parsePath what with
        | some path => match c.root.get? path with
          | some n => if n.ty == T_STRING then n.sval else none
          | none => none
        | none => none
    match arg with
    | some b =>
      let op := Op.read (if how == "file" then .file b else .string b)
      let (st', o) := step st op
      (st', showOut op o)
    | none => (st, "bad-op")
  | ["read_alias_src", how, sp] =>
    match (parsePath sp).bind (fun path => c.root.get? path) with
    | some n =>
      match n.file with
      | some b =>
        let op := Op.read (if how == "file" then .file b else .string b)
        let (st', o) := step st op
        (st', showOut op o)
      | none => (st, "bad-op")
    | none => (st, "bad-op")
  | ["add_alias", pp, sp, kind, ty] =>
    -- config_setting_add(parent, <name or string value of another setting>, ty): the argument is copied, so the
    -- call is an ordinary addition under those bytes
    match parsePath pp, parsePath sp, ty.toInt? with
    | some ppath, some spath, some ty =>
      match c.root.get? spath with
      | some n =>
        let nm := if kind == "name" then n.name else (if n.ty == T_STRING then n.sval else none)
        let op := Op.add ppath nm ty
        let (st', o) := step st op
        (st', showOut op o)
      | none => (st, "bad-op")
    | _, _, _ => (st, "bad-op")
  | ["hold", k, kind, p] =>
    match k.toNat?, parsePath p with
    | some k, some path =>
      if k < 16 && (kind == "incdir" || (c.root.get? path).isSome) then (st, "ok") else (st, "bad-op")
    | _, _ => (st, "bad-op")
  | ["check_held", k] => match k.toNat? with | some k => (st, if k < 16 then "held ok" else "bad-op") | none => (st, "bad-op")
  | ["drop_held", _] => (st, "ok")
  -- C03: the container models of Containers.lean, op by op (constants from the translated source)
  | ["strbuf_seq", ops] =>
    let B := Generated.STRING_BLOCK_SIZE
    let step (acc : Containers.StrBuf × String) (t : String) : Containers.StrBuf × String :=
      let op : Option Containers.StrBufOp :=
        if t.startsWith "s" then (t.drop 1).toNat?.map Containers.StrBufOp.appendString
        else if t == "c" then some .appendChar else if t == "r" then some .release else none
      match op with
      | some op => let b := acc.1.step B op; (b, acc.2 ++ s!"{b.length}/{b.capacity} ")
      | none => acc
    (st, ((ops.splitOn ",").foldl step ({}, "")).2 ++ "end")
  | ["strvec_seq", ops] =>
    let C := Generated.STRVEC_CHUNK_SIZE
    let step (acc : Containers.StrVec × String) (ch : Char) : Containers.StrVec × String :=
      let v := if ch == 'a' then acc.1.step C .append else if ch == 'r' then acc.1.step C .release else acc.1
      (v, acc.2 ++ s!"{v.length}/{v.capacity}/{v.endIdx} ")
    (st, (ops.toList.foldl step ({}, "")).2 ++ "end")
  -- C01: decided by the direct oracle only (the model's writer is cubic on such chains); the theorems are
  -- C01_parse_rebuilds (depth ≤ 1666 always rebuilt) and C01_deep_nesting_exhausts (≥ 4998 lists: "memory exhausted")
  | ["c01deep", _, _] => (st, "not-modelled")
  | _ =>
    match c03Line st w with      -- C03 ops (block above)
    | some r => r
    | none =>
    match parseOp w with
    | none => (st, "bad-op")
    | some op =>
      let (st', o) := step st op
      (st', showOut op o)

partial def loop (h : IO.FS.Stream) (out : IO.FS.Stream) (st : State) : IO Unit := do
  let line ← h.getLine
  if line.isEmpty then return ()
  let ws := (line.trimAscii.toString.splitOn " ").filter (· != "")
  if ws.isEmpty then loop h out st
  else
    let (st', o) := stepLine st ws
    out.putStrLn o
    loop h out st'

def main : IO Unit := do
  let out ← IO.getStdout
  loop (← IO.getStdin) out {}
  out.flush
