import LibconfigModel.Step
import LibconfigModel.WF
import LibconfigModel.Locale
import LibconfigModel.Alloc
import LibconfigModel.Cpp   -- C17
/-
  Line-protocol driver: one operation per line on stdin, one canonical line on
  stdout.  The C harness (harness/drv_api.c) executes the same lines on the real
  library; tools/check.py diffs the two streams.
-/
open Libconfig


def hexNib (c : Char) : Option Nat :=
  if '0' ≤ c ∧ c ≤ '9' then some (c.toNat - 48)
  else if 'a' ≤ c ∧ c ≤ 'f' then some (c.toNat - 87)
  else if 'A' ≤ c ∧ c ≤ 'F' then some (c.toNat - 55)
  else none

def unhex (s : String) : Option Bytes :=
  let rec go : List Char → List Nat → Option Bytes
    | [], acc => some acc.reverse
    | [_], _ => none
    | a :: b :: r, acc =>
      match hexNib a, hexNib b with
      | some x, some y => go r ((x * 16 + y) :: acc)
      | _, _ => none
  if s == "" || s == "=" then some [] else go s.toList []

/-- `-` = NULL, `=` = empty string, otherwise hex -/
def unhexOpt (s : String) : Option (Option Bytes) :=
  if s == "-" then some none
  else if s == "=" then some (some [])
  else (unhex s).map some

def hexDigit (n : Nat) : Char := if n < 10 then Char.ofNat (48 + n) else Char.ofNat (87 + n)

def hex (b : Bytes) : String :=
  if b.isEmpty then "=" else String.ofList (b.flatMap fun c => [hexDigit (c / 16 % 16), hexDigit (c % 16)])

def hexOpt : Option Bytes → String
  | none => "-"
  | some b => hex b

def hex64 (n : Nat) : String :=
  String.ofList ((List.range 16).map fun i => hexDigit (n / 16 ^ (15 - i) % 16))

def parsePath (s : String) : Option Path :=
  if s == "/" then some []
  else
    let parts := (s.splitOn "/").drop 1
    parts.mapM (·.toNat?)

def showPath (p : Path) : String :=
  if p.isEmpty then "/" else String.join (p.map fun i => "/" ++ toString i)

def showOptPath : Option Path → String
  | none => "null"
  | some p => showPath p

def showLog (l : List Nat) : String := "[" ++ ",".intercalate (l.map toString) ++ "]"

partial def dumpNode (n : Node) : String :=
  let v :=
    if n.ty == T_INT || n.ty == T_INT64 || n.ty == T_BOOL then toString n.ival
    else if n.ty == T_FLOAT then hex64 n.fval
    else if n.ty == T_STRING then hexOpt n.sval
    else if n.isAggregate then "[" ++ ",".intercalate (n.kids.map dumpNode) ++ "]"
    else "-"
  "(" ++ hexOpt n.name ++ "," ++ toString n.ty ++ "," ++ toString n.fmt ++ "," ++ v ++ "," ++
    toString n.hook ++ "," ++ toString n.line ++ "," ++ hexOpt n.file ++ ")"

def dumpCfg (c : Config) : String :=
  s!"cfg opts={c.options} tab={c.tabWidth} prec={c.floatPrecision} dfmt={c.defaultFormat} " ++
  s!"incdir={hexOpt c.includeDir} dtor={if c.destructor then 1 else 0} hook={c.hook} " ++
  s!"files=[{",".intercalate (c.filenames.map hex)}] root={dumpNode c.root}"

def b2s (b : Bool) : String := if b then "1" else "0"

def parseKind : String → Option Kind
  | "int" => some .int | "int64" => some .int64 | "float" => some .float
  | "bool" => some .bool | "string" => some .string | _ => none

def bitsOfHex (s : String) : Option Nat := (unhex s).map fun b => b.foldl (fun a x => a * 256 + x) 0

/-- parse one protocol line into an operation -/
def parseOp (w : List String) : Option Op :=
  match w with
  | ["add", p, name, ty] => do some (.add (← parsePath p) (← unhexOpt name) (← ty.toInt?))
  | ["remove", p, name] => do some (.remove (← parsePath p) (← unhexOpt name))
  | ["remove_elem", p, idx] => do some (.removeElem (← parsePath p) (← idx.toNat?))
  | ["set_int", p, v] => do some (.setInt (← parsePath p) (← v.toInt?))
  | ["set_int64", p, v] => do some (.setInt64 (← parsePath p) (← v.toInt?))
  | ["set_float", p, v] => do some (.setFloat (← parsePath p) (← bitsOfHex v))
  | ["set_bool", p, v] => do some (.setBool (← parsePath p) (← v.toInt?))
  | ["set_string", p, v] => do some (.setString (← parsePath p) (← unhexOpt v))
  | ["set_int_elem", p, i, v] => do some (.setIntElem (← parsePath p) (← i.toInt?) (← v.toInt?))
  | ["set_int64_elem", p, i, v] => do some (.setInt64Elem (← parsePath p) (← i.toInt?) (← v.toInt?))
  | ["set_float_elem", p, i, v] => do some (.setFloatElem (← parsePath p) (← i.toInt?) (← bitsOfHex v))
  | ["set_bool_elem", p, i, v] => do some (.setBoolElem (← parsePath p) (← i.toInt?) (← v.toInt?))
  | ["set_string_elem", p, i, v] => do some (.setStringElem (← parsePath p) (← i.toInt?) (← unhexOpt v))
  | ["set_format", p, f] => do some (.setFormat (← parsePath p) (← f.toNat?))
  | ["set_hook", p, h] => do some (.setHook (← parsePath p) (← h.toNat?))
  | ["set_options", n] => do some (.setOptions (← n.toNat?))
  | ["set_option", o, f] => do some (.setOption (← o.toNat?) ((← f.toNat?) != 0))
  | ["set_tab_width", n] => do some (.setTabWidth (← n.toNat?))
  | ["set_float_precision", n] => do some (.setFloatPrecision (← n.toNat?))
  | ["set_default_format", n] => do some (.setDefaultFormat (← n.toNat?))
  | ["set_include_dir", d] => do some (.setIncludeDir (← unhexOpt d))
  | ["set_include_fn", n] => do some (.setIncludeFn (← n.toNat?))
  | ["set_destructor", n] => do some (.setDestructor ((← n.toNat?) != 0))
  | ["set_config_hook", n] => do some (.setConfigHook (← n.toNat?))
  | ["clear"] => some .clear
  | ["destroy"] => some .destroy
  | ["read_string", s] => do some (.read (.string (← unhex s)))
  | ["read_stream", s] => do some (.read (.stream (← unhex s)))
  | ["read_chunked", _, s] => do some (.read (.stream (← unhex s)))
  | ["read_file", p] => do some (.read (.file (← unhex p)))
  | ["get", k, p] => do some (.get (← parseKind k) (← parsePath p))
  | ["get_elem_val", k, p, i] => do some (.getElemVal (← parseKind k) (← parsePath p) (← i.toInt?))
  | ["lookup_val", k, p, name] => do some (.lookupVal (← parseKind k) (← parsePath p) (← unhexOpt name))
  | ["clookup_val", k, path] => do some (.clookupVal (← parseKind k) (← unhex path))
  | ["lookup", p, path] => do some (.lookup (← parsePath p) (← unhex path))
  | ["get_elem", p, i] => do some (.getElem (← parsePath p) (← i.toNat?))
  | ["get_member", p, name] => do some (.getMember (← parsePath p) (← unhexOpt name))
  | ["length", p] => do some (.length (← parsePath p))
  | ["index", p] => do some (.index (← parsePath p))
  | ["get_format", p] => do some (.getFormat (← parsePath p))
  | ["get_option", o] => do some (.getOption (← o.toNat?))
  | ["write"] => some .write
  | ["write_file", p] => do some (.writeFile (← unhex p))
  | ["cat", p] => do some (.cat (← unhex p))
  | ["mkfile", p, c] => do some (.mkfile (← unhex p) (← unhex c))
  | ["mkdir", p] => do some (.mkdir (← unhex p))
  | ["rmfile", p] => do some (.rmfile (← unhex p))
  | _ => none

def showVal : Val → String
  | .int v => toString v
  | .float b => hex64 b
  | .str s => hexOpt s
  | .unspec => "unspec"

/-- canonical text of an operation's result (the same text the C harness prints) -/
def showOut (op : Op) (o : Out) : String :=
  let withLog (s : String) := s!"{s} {showLog o.log}"
  match op, o.res with
  | _, .badOp => "bad-op"
  | .add .., .ptr p => withLog (showOptPath p)
  | .remove .., .flag b => withLog (b2s b)
  | .removeElem .., .flag b => withLog (b2s b)
  | .clear, _ => withLog "ok"
  | .destroy, _ => withLog "ok"
  | .read _, .readResult r =>
    withLog (match r with
      | .accept => "1" | .abort => "0" | .exhausted => "0" | .crash => "crash"
      | .echo b => s!"echo-{b}" | .outOfFuel => "out-of-fuel")
  | _, .unit => "ok"
  | _, .flag b => b2s b
  | _, .ptr p => showOptPath p
  | _, .val v => showVal v
  | _, .optVal none => "0"
  | _, .optVal (some .unspec) => "unspec"
  | _, .optVal (some v) => s!"1 {showVal v}"
  | _, .nat n => toString n
  | _, .bytes b => hex b
  | _, .readResult _ => "?"

-- BEGIN C17
/-! The `cpp …` lines: the C++ API model of LibconfigModel/Cpp.lean.  The text printed here is
the part of the harness line (harness/drv_cpp.cc) before ` | c `. -/

def parseCKind : String → Option Cpp.CKind
  | "bool" => some .bool | "int" => some .int | "uint" => some .uint | "long" => some .long
  | "ulong" => some .ulong | "int64" => some .int64 | "uint64" => some .uint64 | "double" => some .double
  | "float" => some .float | "cstr" => some .cstr | "string" => some .string | _ => none

/-- kinds that have a `lookupValue` overload -/
def parseLvKind (k : String) : Option Cpp.CKind :=
  if k == "long" || k == "ulong" then none else parseCKind k

def parseAVal (k v : String) : Option Cpp.AVal :=
  match k with
  | "bool" => do some (.bool ((← v.toInt?) != 0))
  | "int" => do some (.int (← v.toInt?))
  | "long" => do some (.long (← v.toInt?))
  | "int64" => do some (.int64 (← v.toInt?))
  | "double" => do some (.double (← bitsOfHex v))
  | "float" => do some (.float (← bitsOfHex v))
  | "cstr" => do some (.cstr (← unhexOpt v))
  | "string" => do some (.string (← unhex v))
  | _ => none

def parseCppOp (w : List String) : Option Cpp.CppOp :=
  let S (p : String) (op : Cpp.SOp) : Option Cpp.CppOp := do some (.setting (← parsePath p) op)
  match w with
  | ["init"] => some .init
  | ["clear"] => some .clear
  | ["read_string", s] => do some (.read (.string (← unhex s)))
  | ["read_stream", s] => do some (.read (.stream (← unhex s)))
  | ["read_file", p] => do some (.read (.file (← unhex p)))
  | ["write_file", p] => do some (.writeFile (← unhex p))
  | ["write"] => some .write
  | ["clookup", path] => do some (.lookup (← unhex path))
  | ["cexists", path] => do some (.exists_ (← unhex path))
  | ["clookup_value", k, path] => do some (.lookupValue (← parseLvKind k) (← unhex path))
  | ["get_root"] => some .getRoot
  | ["set_options", n] => do some (.setOptions (← n.toNat?))
  | ["get_options"] => some .getOptions
  | ["set_option", o, f] => do some (.setOption (← o.toNat?) ((← f.toNat?) != 0))
  | ["get_option", o] => do some (.getOption (← o.toNat?))
  | ["set_auto_convert", f] => do some (.setAutoConvert ((← f.toNat?) != 0))
  | ["get_auto_convert"] => some .getAutoConvert
  | ["set_tab_width", n] => do some (.setTabWidth (← n.toNat?))
  | ["get_tab_width"] => some .getTabWidth
  | ["set_float_precision", n] => do some (.setFloatPrecision (← n.toNat?))
  | ["get_float_precision"] => some .getFloatPrecision
  | ["set_default_format", n] => do some (.setDefaultFormat (← n.toNat?))
  | ["get_default_format"] => some .getDefaultFormat
  | ["set_include_dir", d] => do some (.setIncludeDir (← unhexOpt d))
  | ["get_include_dir"] => some .getIncludeDir
  | ["wrappers"] => some .wrappers
  | ["cast", k, p] => do S p (.cast (← parseCKind k))
  | ["assign", k, p, v] => do S p (.assign (← parseAVal k v))
  | ["lookup", p, path] => do S p (.lookup (← unhex path))
  | ["member", p, name] => do S p (.member (← unhexOpt name))
  | ["elem", p, i] => do S p (.elem (← i.toInt?))
  | ["lookup_value", k, p, name] => do S p (.lookupValue (← parseLvKind k) (← unhexOpt name))
  | ["exists", p, name] => do S p (.exists_ (← unhexOpt name))
  | ["add", p, name, ty] => do S p (.add (← unhexOpt name) (← ty.toNat?))
  | ["add_elem", p, ty] => do S p (.addElem (← ty.toNat?))
  | ["remove", p, name] => do S p (.remove (← unhexOpt name))
  | ["remove_idx", p, idx] => do S p (.removeIdx (← idx.toNat?))
  | ["info", p] => S p .info
  | ["get_path", p] => S p .getPath
  | ["get_parent", p] => S p .getParent
  | ["set_format", p, f] => do S p (.setFormat (← f.toNat?))
  | ["iterate", p] => S p .iterate
  | ["citerate", p] => S p .iterate
  | _ => none

def showExc : Cpp.Exc → String
  | .settingNotFound p => "E:SettingNotFoundException:" ++ hex p
  | .settingType p => "E:SettingTypeException:" ++ hex p
  | .settingRange p => "E:SettingRangeException:" ++ hex p
  | .settingName p => "E:SettingNameException:" ++ hex p
  | .parse f l t => s!"E:ParseException:{hexOpt f}:{l}:{hexOpt t}"
  | .fileIO => "E:FileIOException"
  | .badAlloc => "E:bad_alloc"

def showCppVal : Cpp.CppVal → String
  | .unit => "ok"
  | .bool b => b2s b
  | .int v => toString v
  | .dbl b => hex64 b
  | .cstr s => hexOpt s
  | .text s => hex s
  | .setting p => showPath p
  | .order l d => "iter " ++ (if l.isEmpty then "-" else ",".intercalate (l.map toString)) ++ s!" dist {d}"
  | .info i =>
    s!"{i.length} {hexOpt i.name} {i.index} {i.type} {i.format} {b2s i.isRoot} {b2s i.isGroup} {b2s i.isArray} " ++
    s!"{b2s i.isList} {b2s i.isAggregate} {b2s i.isScalar} {b2s i.isNumber} {b2s i.isString} {i.line} {hexOpt i.file}"
  | .unspec => "unspec"

/-- operations whose line reports the wrappers deleted -/
def cppShowsFreed : Cpp.CppOp → Bool
  | .init | .clear | .read _ => true
  | .setting _ (.add ..) | .setting _ (.addElem _) | .setting _ (.remove _) | .setting _ (.removeIdx _) => true
  | _ => false

def showCppOut (op : Cpp.CppOp) (o : Cpp.Out) : String :=
  let freed := if cppShowsFreed op then s!" freed {o.freed.length}" else ""
  match o.res with
  | .badOp => "bad-op"
  | .ok v => showCppVal v ++ freed
  | .found none => "0" ++ freed
  | .found (some v) => "1 " ++ showCppVal v ++ freed
  | .exc e => showExc e ++ freed
  | .undefined => "undefined" ++ freed

def cppLine (st : State) (w : List String) : State × String :=
  match w with
  | ["overloads", _] => (st, "ok")      -- which of two equivalent overloads the harness calls
  | [b, k, n] =>
    if b == "badalloc" || b == "badalloc_long" then
      -- C13, C++ part: the k-th of n allocation requests fails; the fatal-error handler throws std::bad_alloc
      match k.toInt?, n.toNat? with
      | some k, some n =>
        if k < 0 then (st, "count")
        else
          match runAllocs (List.replicate n Act.alloc) (some k.toNat) 0 with
          | .fatal _ => (st, "bad_alloc")
          | .normal _ => (st, "normal-same")
      | _, _ => (st, "bad-op")
    else
      match parseCppOp w with
      | none => (st, "bad-op")
      | some op => let (st', o) := Cpp.cppStep st op; (st', showCppOut op o)
  | _ =>
    match parseCppOp w with
    | none => (st, "bad-op")
    | some op => let (st', o) := Cpp.cppStep st op; (st', showCppOut op o)
-- END C17

def stepLine (st : State) (w : List String) : State × String :=
  let c := st.cfg
  match w with
  | "cpp" :: rest => cppLine st rest   -- C17
  | ["init"] => ({ st with cfg := Config.init }, "ok")
  | ["reset_world"] => ({ st with world := {} }, "ok")
  | ["info", p] =>
    match parsePath p with
    | some p =>
      match c.root.get? p with
      | some n => (st, s!"{n.ty} {hexOpt n.name} {b2s p.isEmpty} {b2s (isScalarTy n.ty)} {b2s n.isAggregate} {n.line} {hexOpt n.file} {n.hook}")
      | none => (st, "bad-op")
    | none => (st, "bad-op")
  | ["err"] => (st, s!"{c.errType} {hexOpt c.errText} {hexOpt c.errFile} {c.errLine}")
  | ["loccase", g, t, entry, text] =>
    -- C15: read + write + write_file/read_file round trip under a locale set-up
    match g.toNat?, t.toNat?, unhex text with
    | some g, some t, some text =>
      let l : LocaleState := { globalRadix := if g != 0 then 44 else 46, thread := if t != 0 then some 44 else none }
      let src : Source := match entry with
        | "string" => .string text
        | "stream" => .stream text
        | _ => .file (bytesOfString "in.cfg")
      let w : World := { files := [(bytesOfString "in.cfg", some text)] }
      -- every number is parsed / formatted with the radix the thread sees between override and restore
      let (r, l1) := withCLocale l fun radix =>
        let r := read w Config.init src readFuel
        (r, applyRadix radix (r.cfg.write Generated.FLOAT_BUF_SIZE))
      let (rd, out) := r
      let (r2, l2) := withCLocale l1 fun radix =>
        let r2 := read { files := [(bytesOfString "out.cfg", some out)] } Config.init (.file (bytesOfString "out.cfg")) readFuel
        (r2.ok, applyRadix radix (r2.cfg.write Generated.FLOAT_BUF_SIZE))
      (st, s!"{b2s rd.ok} {hex out} {b2s r2.1} {b2s (r2.2 == out)} {b2s (l2.thread == l.thread)} {b2s (l2.globalRadix == l.globalRadix)} {l.effective} {l2.effective}")
    | _, _, _ => (st, "bad-op")
  | ["allocdouble", _, k, n] =>
    -- two failures in one process: each of them reaches the handler (C13_kth applies to each run)
    match k.toNat?, n.toNat? with
    | some k, some n =>
      (match runAllocs (List.replicate n Act.alloc) (some k) 0 with
       | .fatal _ => (st, "handler handler")
       | .normal _ => (st, "MISSING"))
    | _, _ => (st, "bad-op")
  | ["alloccase", _, k, n] =>
    -- C13: the k-th of n allocation requests (all through checked wrappers) fails
    match k.toInt?, n.toNat? with
    | some k, some n =>
      if k < 0 then (st, "count")
      else
        match runAllocs (List.replicate n Act.alloc) (some k.toNat) 0 with
        | .fatal _ => (st, "handler")
        | .normal _ => (st, "normal-same")
    | _, _ => (st, "bad-op")
  | ["thrcase", _, _, _] => (st, "ok")
  | ["thrcase", _, _, _, _] => (st, "ok")     -- C14_serial: every thread's transcript equals its serial transcript
  | ["lex", text] =>
    -- the token stream of yylex on a string (same format as the harness)
    match unhex text with
    | some text =>
      let T := Generated.tokens
      let rec go (fuel : Nat) (s : ScanState) (acc : String) : String :=
        match fuel with
        | 0 => acc ++ "fuel"
        | fuel + 1 =>
          match yylex Generated.scanner Generated.scanActions st.world { fn := 0, dir := none } readFuel s with
          | (s', .tok t v) =>
            let val :=
              if t == T.string || t == T.name then ":" ++ hex v.sval
              else if t == T.boolean || t == T.integer || t == T.hex || t == T.integer64 || t == T.hex64 then s!":{v.ival}"
              else if t == T.float then ":" ++ hex64 v.fval
              else ""
            go fuel s' (acc ++ s!"{t}{val}@{s'.buf.lineno} ")
          | (_, .eof) => acc ++ "eof"
          | (s', .includeError t _ _ _) => go fuel s' (acc ++ s!"{t}@{s'.buf.lineno} ")
          | (_, .echo b) => acc ++ s!"echo-{b}"
          | (_, .outOfFuel) => acc ++ "out-of-fuel"
      (st, go 100001 { buf := { rest := cstr text } } "")
    | none => (st, "bad-op")
  | ["wfcase", text, fsync, kind, param] =>
    -- C12: parse a configuration, then config_write_file under the I/O faults the kind denotes
    match unhex text, fsync.toNat?, param.toNat? with
    | some text, some fsync, some param =>
      let c0 := (read {} Config.init (.string text) readFuel).cfg
      let c0 := c0.setOption OPT_FSYNC (fsync != 0)
      let out := c0.write Generated.FLOAT_BUF_SIZE
      let io : IOFaults :=
        match kind with
        | "fsize" => { writeOk := decide (out.length ≤ param) }
        | "devfull" => { writeOk := out.isEmpty, fsyncOk := false }  -- fsync on a character device fails (EINVAL)
        | "nodir" => { openOk := false }
        | "isdir" => { openOk := false }
        | "readonly" => { openOk := false }
        | "fsyncfail" => { fsyncOk := false }
        | "fclosefail" => { closeOk := false }
        | _ => {}
      let r := writeFile Generated.FLOAT_BUF_SIZE c0 io
      let disk := if r.ret && kind != "devfull" then (match r.fileBytes with | some b => hex b | none => "-") else "-"
      (st, s!"{b2s r.ret} {r.cfg.errType} {disk} {out.length}")
    | _, _, _ => (st, "bad-op")
  | ["dump"] => (st, dumpCfg c)
  | ["wf"] => (st, if c.wfb then "wf ok" else "wf FAIL")
  | ["lookup_all"] => (st, if lookupAllFrom 64 c.root then "lookup_all ok" else "lookup_all FAIL")
  -- BEGIN C1011
  -- Resource observations of C10/C11.  The harness prints the change in the number of open
  -- descriptors since `fdmark`, and whether LeakSanitizer found an unreachable block; the model's
  -- answers are what theorem C11_balanced proves for every read: nothing stays open, nothing leaks.
  | ["fdmark"] => (st, "ok")
  | ["fdcount"] => (st, "0")      -- C11_balanced: (ledger (read …).events).opened = [] for every read
  | ["leakcheck"] => (st, "0")    -- C11_balanced: … .bufs = 0 (flex/bison/libc internals: LeakSanitizer only)
  | ["read_stream_keep", s] =>
    -- config_read on the caller's stream, which the caller then examines and closes itself: the
    -- model replays the read's I/O events on the ledger (Read.lean) and checks that it is balanced
    -- and that every event names an include file (C11_caller_stream_untouched)
    match unhex s with
    | some text =>
      let r := read st.world c (.stream text) readFuel
      let named := r.events.all fun e => match e.path with
        | some p => r.cfg.filenames.contains p
        | none => true
      let res := match r.result with
        | .accept => "1" | .abort => "0" | .exhausted => "0" | .crash => "crash"
        | .echo b => s!"echo-{b}" | .outOfFuel => "out-of-fuel"
      ({ st with cfg := r.cfg },
       s!"{res} {showLog r.dtorLog} {if (ledger r.events).balanced && named then "stream-ok" else "stream-bad"}")
    | none => (st, "bad-op")
  -- END C1011
  | _ =>
    match parseOp w with
    | none => (st, "bad-op")
    | some op =>
      let (st', o) := step st op
      (st', showOut op o)

partial def loop (h : IO.FS.Stream) (out : IO.FS.Stream) (st : State) : IO Unit := do
  let line ← h.getLine
  if line.isEmpty then return ()
  let ws := (line.trimAscii.toString.splitOn " ").filter (· != "")
  if ws.isEmpty then loop h out st
  else
    let (st', o) := stepLine st ws
    out.putStrLn o
    loop h out st'

def main : IO Unit := do
  let out ← IO.getStdout
  loop (← IO.getStdin) out {}
  out.flush
