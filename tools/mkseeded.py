#!/usr/bin/env python3
"""Rewrite the table of DESIGN.md section 8 from seeded/*/meta.json."""
import json, os, re
VERIF = os.path.dirname(os.path.dirname(os.path.abspath(__file__)))
rows = []
for d in sorted(os.listdir(os.path.join(VERIF, 'seeded'))):
    mp = os.path.join(VERIF, 'seeded', d, 'meta.json')
    if not os.path.exists(mp):
        continue
    m = json.load(open(mp))
    def cell(x):
        return re.sub(r'\s+', ' ', str(x)).replace('|', '/')
    rows.append('| `%s` | %s | %s | %s |' % (d, m['breaks_property'], cell(m.get('needs_to_manifest', '')), cell(m.get('caught_by', ''))))
table = '| seeded change | property | needs | caught by |\n|---|---|---|---|\n' + '\n'.join(rows) + '\n'
p = os.path.join(VERIF, 'DESIGN.md')
s = open(p).read()
a, b = '<!-- BEGIN SEEDED TABLE -->\n', '<!-- END SEEDED TABLE -->\n'
if a in s:
    s = s[:s.index(a) + len(a)] + table + s[s.index(b):]
    open(p, 'w').write(s)
print(len(rows), 'rows')
