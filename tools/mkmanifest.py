#!/usr/bin/env python3
"""Regenerate MANIFEST.json from the table below (keeps it valid and in one place)."""
import json, os
VERIF = os.path.dirname(os.path.dirname(os.path.abspath(__file__)))
props = [json.loads(l)['id'] for l in open(os.path.join(VERIF, 'properties.jsonl'))]

BR = ("Bridge.lean ties the finite-domain functions involved (name characters, type classes, array acceptance, format "
      "acceptance and the stored/effective format under both default formats, tab-width clamp, string escapes) to tables the real code is made to print over its whole domain on every run. ")
TB = ("Trusted base: Lean 4.33 kernel (+ leanchecker in the thorough tier); axioms propext, Classical.choice, Quot.sound only "
      "(audited by #print axioms on every run; no sorry/admit/native_decide/bv_decide/user axioms); tools/translate.py; the "
      "correspondence harness and its generators; glibc printf/strtod/strto* specifications. ")

CHECKS = {
 'C01': dict(
   text=("Proved end to end at the model level (Properties/C01RoundTrip.lean): C01_roundtrip_string / _stream / _file — for every "
         "configuration c meeting two explicit decidable side conditions, every world, every reading configuration and every fuel "
         ">= 8*|text|+10, reading the bytes config_write produced succeeds and yields exactly expectedRoot c; C01_roundtrip_settings / "
         "C01_expected_same spell that out per path: same names, order, child counts and types, integers with their value and "
         "effective format, booleans as truth values, strings byte for byte (NULL as \"\"), each float = the correctly rounded value "
         "of its written text. The proof is the composition of C19_bytes (written bytes = item sequence), C01_lex_items (the compiled "
         "scanner cuts those bytes exactly at the item boundaries and returns each item's token — via a kernel-checked simulation "
         "certificate between the flex tables and a lexeme automaton, C18_equiv, the per-lexeme theorems C01_int_*/C01_string/"
         "C01_float_*), C01_parse_rebuilds (the LALR parser over the translated tables, run on that token sequence, accepts and "
         "rebuilds the tree — ~110 kernel-decided table facts plus simulation lemmas by mutual induction over the tree) and "
         "C03_parse_fuel (termination). Side conditions: LexOK (valid names that do not spell a boolean literal — "
         "C01_boolword_name_is_boolean proves the recorded finding in general —, no setting of type NONE, integers in range, NUL-free "
         "strings, finite floats whose rendering fits the buffer: discharged for the default notation by C01_floatOK_default) and "
         "ParseOK (well-formed tree, nesting <= 1666: C01_deep_nesting_exhausts proves that beyond the parser's stack the text is "
         "rejected — the second recorded finding). On the implementation the direct oracle decides the same: dump -> write -> "
         "read_string -> dump -> write on trees from API histories, parsed texts and boundary value pools under sampled/all option "
         "words, precisions, tab widths and default formats, with an independent Python implementation of the property's equivalence "
         "(glibc-exact printf rendering, correctly rounded float) and text idempotence."),
   note=TB + BR + "Idempotence of the text is proved too (Properties/C01Idem.lean): C01_float_idem (default notation, every finite double, precision <= 26: printf(strtod(printf x)) = printf x, ties included), C01_rewrite_same (the re-read configuration writes the same bytes), C01_float_idem_sci / C01_rewrite_same_sci (scientific notation, normal values and zero, precision <= 15 or >= 17), C01_floatOK_sci (the two float side conditions under scientific notation hold for every finite double, precision <= 70), C01_floorLog10_spec, C01_ofRat_err (half an ulp). The proof attempt REFUTED idempotence for subnormal values under scientific notation (C01_sci_denormal: 21*2^-1074 at precision 2) — reproduced on the implementation and recorded as the third known finding; at the undocumented precision 16 it fails for normal values too (C01_sci_p16; outside the property's quantifier). Known findings C01:member-name~/^(true|false)$/i, C01:nesting-beyond-parser-stack and C01:subnormal-scientific-rewrite are reproduced deliberately on every run.",
   technique='end-to-end round-trip theorem in Lean 4 (writer items -> compiled scanner -> LALR parser over translated tables, kernel-checked certificates) + write/read/compare direct oracle + byte-exact writer correspondence', ref='§5 C01'),
 'C02': dict(
   text=("Proved: C02_sound — whenever the model of bison's yyparse loop over the TRANSLATED tables (with the real scanner model and the real "
         "actions) accepts, the input lexes to a token sequence whose kinds are derivable from the documented grammar (Grammar.lean, 41 "
         "rules in the tables' symbol numbering); the LR soundness argument is made static by a kernel-decided check of the tables against "
         "a certificate of automaton edges (every reduction available in a state finds exactly its right-hand side on every path into "
         "that state; shift/goto targets have the right accessing symbols; only `configuration $end` reaches the final state) plus a loop "
         "invariant attaching a derivation tree to every stack entry; C02_rules_match (yyr1/yyr2 agree with the grammar). C02_complete — "
         "the converse: whenever the token kinds of the input are derivable from the grammar, the parser over the translated tables never "
         "reports a syntax error (it accepts, or stops with a semantic error — duplicate name, mismatched element —, an include/scan "
         "error or stack exhaustion); proved with a second kernel-decided certificate (per state, the set of viable lookaheads closed "
         "under default reductions) and a viable-prefix invariant. C02D_parse_denotes / C02D_accept / C02D_error "
         "(Properties/C02Denote.lean): the parser REFINES a readable reference interpreter of the documented grammar (Denote.lean: "
         "recursive descent over tokens, no LR tables): when `denote` answers a tree the parser accepts and has built exactly that "
         "tree (names, order, types, values, hex/decimal format, adjacent strings concatenated, overrides replace and move to the "
         "end); when it answers an error kind (syntax / duplicate name / mismatched array element — the first offence in reading "
         "order) the parser aborts with exactly that message; C02D_read_string/_stream/_file lift it to the read functions, "
         "C02D_scanner_names ties NAME tokens to valid names through C18. Side condition: nesting <= 1665 (beyond the parser stack "
         "the statement is refuted: C02D_unbounded_statement_false — the recorded finding). Additionally decided to a "
         "bound on the implementation: every viable token-kind prefix up to the bound plus every one-token "
         "invalid extension, rendered with varied spellings, duplicates and mixed arrays injected and tracked, overrides off/on, against "
         "an independent recogniser of the documented grammar (direct oracle: accept/reject and error class by first offence) and against "
         "the model (result, error text/line, full tree with source lines)."),
   note=TB + BR + "Error LINES are not specified by the interpreter (decided by correspondence and the error oracle); an include error arriving as lookahead can replace the message of a pending array mismatch (C02D_include_error_text) — hence the error direction assumes a run without include errors; when a translated action or table changes, the failing-input search runs against the model over the committed reference translation; known findings C02:string-element-mismatch-line and C02:parser-stack-limit are reproduced by the model.",
   technique='LR soundness and completeness theorems + refinement of the parser to a reference interpreter of the documented grammar, over translated LALR tables (kernel-decided certificates, simulation) in Lean 4; exhaustive-to-bound correspondence against an independent grammar recogniser', ref='§5 C02'),
 'C03': dict(
   text=("Partial. About 120 theorems about the part of the property that is logic. No stray output: C03_no_echo / C03_read_no_echo — for any "
         "bytes, through any include files, yylex over the translated tables never takes flex's default ECHO rule (the only action "
         "that writes to stdout). No process exit: the outcome type of a read has no exit case; C03_actions_known (no unrecognised "
         "scanner/parser action, EOF action and helper macros catalogued); C03_input_override + C03_failing_read (the translated "
         "scanner.c carries the YY_INPUT override, so a failing fread — flex's only reachable exit(2) — is an ordinary failure with "
         "the file-I/O error record; C03_failing_stream_wf/_file_wf: and leaves a well-formed tree); C03_crash_only_from_actions. "
         "Generated tables, by kernel evaluation over what scanner.c/grammar.c contain now: every table access of the flex chase "
         "(all states x classes) and of the LALR loop is in range, the default chain ends within its fuel, C03_lalr_states (every "
         "parser state along every run is < 47), C03_no_error_shift. Bounded recursion: yyparseLoop is the iteration of a one-step "
         "function; C03_stack_bounded (never more than the documented 10000 entries), C03_stack_limit (then 'memory exhausted'). "
         "Container arithmetic for every operation sequence, parametric in the chunk constants: flex's input buffer (C20B_in_bounds, "
         "Properties/C20Buffer.lean), bison's parser stacks (BisonStack.lean, Properties/C03Stack.lean: C03S_in_bounds — every store, "
         "load and relocation copy inside the block current at that moment, for every allocator behaviour; C03S_content / "
         "C03S_parser_drives — the memory model stays in lock step with Parser.lean's idealised stack along every parser run; "
         "C03S_growth (200, 400, ... clamped to 10000), C03S_exhausted_iff / C03S_parser_exhausted_iff, C03S_no_leak (every block "
         "freed exactly once, the automatic arrays never), C03S_nested_lists (4997 nested lists reach the limit), "
         "C03S_seeded_breaks_all (the off-by-one capacity test refuted in general)), strbuf (length+len+1 <= capacity, the "
         "& ~63 form = arithmetic rounding), strvec, child vectors (store index inside the allocation after any adds/removes), "
         "libconfig_format_double (never more than buflen bytes). Termination (Properties/C03Term.lean): every match consumes >= 1 byte; "
         "C03_no_underflow (along every run a reduction finds more stack entries than it pops: the model's drop/headD never "
         "totalise), C03_reductions_bounded (at most 7 consecutive iterations consume no token — a kernel-checked rank certificate "
         "over the translated tables), C03_parse_fuel (8n+10 iterations suffice for n tokens), C03_read_terminates and "
         "C03_read_fuel_irrelevant (for reads without readable include files the model's fuel is unobservable above the bound). "
         "Usable afterwards: C04_read (well-formed whatever was read). What Lean cannot decide — memory errors, UB, "
         "leaks, hangs in the C code — is VALIDATED, not proved: one harness under ASan+UBSan+LSan with exit()/stdout/stderr traps and "
         "a per-op alarm runs grammar-derived texts, coverage-guided mutants, sizes 0..40 KiB across the 8/16/32 KiB boundaries, "
         "tokens longer than the buffer, unterminated constructs, NUL bytes, hostile includes (missing, directory, self, mutual, "
         "12-chains, 31..70 files), nesting to 12000 levels, failing streams/files; every read is followed by the "
         "traverse/lookup/write/remove/modify/re-read/destroy battery and compared with the model."),
   note=TB + "PARTIAL: C memory safety, leaks inside generated code and hangs are observed on executed paths only. Termination of reads that pull in include files is proved on the scanner side only (C10_tokens_exist). Three defects repaired (directory include -> exit(2); lone backslash in INCLUDE mode -> ECHO; failing fread -> exit(2)).",
   technique='kernel-decided table-safety, stack-bound, container-arithmetic and no-echo/no-exit theorems in Lean 4 over translated tables + sanitizer battery on coverage-guided mutations (validation)', ref='§5 C03'),
 'C04': dict(
   text=("Theorems: C04_step_all — EVERY operation of the API alphabet, reads included, with arbitrary arguments, succeeding or failing, "
         "preserves the well-formedness invariant (root nameless group; distinct valid member names; nameless list/array elements; arrays "
         "of scalars of one type; scalars have no children); C04_read — whatever bytes are read from whatever source, whatever the outcome "
         "(syntax error, duplicate, mismatched element, include error, stack exhaustion), the configuration left behind is well-formed "
         "(invariant over the parser loop: a tree invariant on ctx->parent/ctx->setting preserved by every grammar action, plus one "
         "kernel-decided fact about the translated LALR automaton — the actions that write through ctx->setting only run while a `$@1` "
         "entry is on the stack); C04_init, C04_history_all (induction over the history), query agreement lemmas (length / element / "
         "member), C04_wfb_iff (the executable check equals the proposition), C04_type_codes (bridge). No bound on trees, arguments or "
         "history length. The model's API functions are tied to lib/libconfig.c by correspondence (shape projection; every history over a "
         "16-op alphabet up to length 3/4 plus long random histories) and a C implementation of the invariant walks the real structs "
         "(parent/config back-pointers, index and member-lookup agreement) — also as a probe on every shrunk disagreement."),
   note=TB + BR + "Back-pointers (parent, config) are derived in the model; they are checked on the real structs by the harness.",
   technique='invariant proved by induction over operations and over the parser loop in Lean 4 (with a kernel-decided automaton fact); hand-written model tied by differential correspondence',
   ref='§5 C04'),
 'C05': dict(
   text=("Refinement theorems (remove by path deletes exactly the addressed setting; add appends/overrides as the ordered-tree specification "
         "says), failure atomicity for every non-read operation, frame theorems for assignments, attribute preservation by clear/read and "
         "the documented argument conventions; the mechanism-level model is tied to lib/libconfig.c by full-projection correspondence "
         "(every return value and a full dump after every operation)."),
   note=TB + BR, technique='refinement to an ordered-tree specification proved in Lean 4 + full-state differential correspondence', ref='§5 C05'),
 'C06': dict(
   text=("Theorems: C06_lookup_eq_resolve (the path walker computes exactly the declarative resolution parseSteps+walk), C06_sound "
         "(whatever resolves is reached by steps that exist: exact member names / in-range indices, never below a scalar), C06_complete "
         "(every setting is found from every ancestor by every spelling: names or [i], any of . : /, optional leading separator), "
         "C06_getPath (the C++ getPath() text resolves back), C06_untouched. All trees, all byte strings, no bound. Tied to the code by "
         "correspondence on lookups (valid spellings and systematic corruptions incl. 2^31, 2^32±i, empty brackets) and by an in-harness "
         "oracle that looks every setting up from every ancestor by every spelling on the real structs."),
   note=TB, technique='characterisation theorem (walker = declarative resolution) + soundness/completeness proved in Lean 4; differential correspondence', ref='§5 C06'),
 'C07': dict(
   text=("The complete conversion table as equations for every stored type, stored value, requested type and auto-convert setting "
         "(C07_get_*, C07_set_*), type stability, set/get round trips, int64-into-int exactly when the value fits, mismatch atomicity and "
         "the accessor families as compositions; tied to lib/libconfig.c by correspondence over the boundary-value grid "
         "(0, ±1, INT_MIN/MAX±1, 2^24+1, 2^53+1, LLONG_MIN/MAX, fractional and huge doubles) through direct, by-name, by-path and by-index accessors, "
         "with sentinels detecting writes to the output variable on failure. The bodies of the conversion functions themselves "
         "(__config_setting_get_int/int64/float, config_setting_set_int/int64/float/bool/format, get_bool, get_format, is_scalar/aggregate, "
         "the option / tab-width / precision accessors: 21 functions) are TRANSLATED from clang's typed AST on every run into a deep embedding "
         "(Generated/CSource.lean), executed by a C-subset semantics with the value union as one 64-bit cell (CSrc.lean), and proved to refine "
         "the model functions for every setting, union content, option word and argument (Properties/CSource.lean, CS_*): for these "
         "functions the tie to the source is a theorem, not a sample."),
   note=TB + "Float→integer casts outside the target range are undefined in C and are excluded on both sides ('unspec'). tools/ctranslate.py and the "
        "C-subset semantics of CSrc.lean (union layout little endian, two's complement wrap, both operands of && evaluated: the translated "
        "expressions have no side effects) are part of the trusted base of the CS_* theorems.",
   technique='equational theorems over all values in Lean 4 + refinement theorems about the translated C source of the accessors + differential correspondence on the boundary grid', ref='§5 C07'),
 'C08': dict(
   text=("Theorems for every spelling of the numeric rules' languages (sign, any digit string, L/LL): C08_parse_integer / C08_integer / "
         "C08_integer64 (decimal, or octal with a leading 0; int when it fits 32 bits, else int64, an L suffix forcing int64; rejected when "
         "not representable or when an octal literal holds 8/9), C08_parse_hex / C08_hex / C08_hex64 (the 32/64-bit pattern spelled, rejected "
         "beyond the width), C08_wrap*_pattern, C08_float (rejected exactly when the correctly rounded value is infinite), "
         "C08_ofRat_not_nan, ofRat_nearest (the reference decimal-to-binary64 conversion the model uses IS the correctly rounded one: no "
         "other double is closer, ties go to the even significand, overflow exactly at the documented threshold), and C08_actions which ties rules 37-41 of the compiled scanner to those catalogued actions (their C text is "
         "re-translated from scanner.c on every run). libconfig_parse_integer/parse_hex64/atof are tied by correspondence; an independent "
         "Python big-integer / correctly-rounded float reading of each literal is the direct oracle (boundaries 2^31, 2^32, 2^63, 2^64, "
         "1..22 digits, floats with up to 300 digits and exponents -400..400)."),
   note=TB + "That glibc's strtod computes the correctly rounded value is an assumption about libc: it is compared with the proved-correct Lean conversion and with Python's float() on every run.",
   technique='theorems over all spellings in Lean 4 + translated action catalogue + differential correspondence with an exact-arithmetic oracle', ref='§5 C08'),
 'C09': dict(
   text=("History independence proved: the error record and result of a read (C09_read_independent, C09_readCore_independent) and of "
         "config_write_file (C09_write_independent) are functions of the call, the file system and the configuration's attributes only; "
         "C09_read_success (type none), C09_read_failure (parse error, or exactly the I/O record when the file cannot be opened), "
         "C09_parse_failure_text (every parser failure carries a message; induction over the parser loop), C09_string_no_include_file, "
         "C09_write_result. Position of the report (Properties/C09Line.lean, over the translated tables): C09L_position / C09L_read_string/"
         "_stream/_file — the recorded line is the scanner's line after the offending token and the recorded file is the file current "
         "there (NULL for strings and streams, the included file's name inside an include: C09L_readCore_file_top), for syntax "
         "errors (first token that cannot continue a sentence; the final line when the text ends too early), duplicate names (the NAME "
         "token) and mismatching array elements (the element token) — with the one exception that a mismatching STRING element is "
         "reported at the FOLLOWING token (reportIndex; C09L_string_element_finding refutes the naive statement: the recorded finding, "
         "now exact). Kernel-decided table facts say why: which states reduce by default without fetching a lookahead. "
         "Tied to the code by correspondence on ALL histories up to the length bound over 14 event kinds (ok/failing "
         "reads of each error kind at different lines and in an included file, through the three entry points, missing file, directory, "
         "ok/failing writes), with the isolated expectation of each event as direct oracle."),
   note=TB + "Assumes nesting within the parser stack bound (as C02D) and a run without include errors for the position theorem. The C++ exception mapping of the same record is checked under C17.",
   technique='history-independence theorems in Lean 4 (incl. parser-loop invariants) + exhaustive-to-bound history correspondence + all-paths theorems (CF_*) about the control flow of __config_read / config_read_file / the include stack translated from the source', ref='§5 C09'),
 'C10': dict(
   text=("Proved: C10_splice — for every include tree of at most 10 levels cut at line boundaries (IncludeTreeOK': every named file "
         "exists, plain lines, bytes 1..255, the last file of a directive ends in a newline or nothing follows the directive on its "
         "line), reading the top file through the include machinery and reading the spliced text as one string give the same result, "
         "the same outcome and the same configuration up to the recorded lines and files (C10_splice_config: also the same error text "
         "and destructor log); C10_tokens / C10_tokens_exist — the two scans deliver the same token sequence (a simulation between "
         "the scanner with its include stack and the scanner on the flat text, carried through yylex and the parser loop). The first "
         "formulation of this statement was REFUTED by the proof attempt (C10_spliceStatement_false: text behind the directive on its "
         "line glued to an unterminated last line; a NUL inside a path) — the implementation agrees with the model there (seam "
         "correspondence). Mechanism theorems for every scan state, world and include function: C10_depth_limit (the documented 10 and "
         "its bridge to MAX_INCLUDE_DEPTH), C10_push, C10_missing_first, C10_fn_error, C10_empty_list, C10_order / C10_next_file / "
         "C10_pop, C10_missing_later (the recorded finding, exactly), C10_lineno_per_buffer, C10_directive_line, C10_paths*, "
         "C10_provenance_step, C10_current_file, C10_actions (the translated include/EOF actions are the catalogued ones). Provenance end "
         "to end (Properties/C10Prov.lean): C10P_provenance / C10P_read_file / C10P_include_tree — after a successful read every named "
         "setting carries the line and file current right after its NAME token, in the included file's own numbering; "
         "C10P_string_element_finding: an UNNAMED string element reports the token following it (outside the property's claim). On the "
         "implementation the direct oracle decides the same on generated include forests (fan-out, depth 0..12, > 32 files, empty "
         "files, no trailing newline, files ending inside a group/list/string/comment, odd names, with/without include dir, absolute "
         "paths, default and custom multi-path include functions): read_file(top) vs read_string(spliced text), recorded (file, line) "
         "of every setting, chains succeed iff <= 10, error triples for cycles / missing targets / include-function errors."),
   note=TB + "C10_splice_total removes the last fuel hypothesis (explicit bound spliceFuel; C10_read_with_includes_terminates, C10_read_fuel_irrelevant). Known finding C10:missing-non-first-file-location (reproduced and printed).",
   technique='splice-equivalence theorem by simulation in Lean 4 (scanner with include stack vs flat text, through the parser loop) + mechanism theorems + spliced-text / provenance / depth direct oracles on generated include forests', ref='§5 C10'),
 'C11': dict(
   text=("Proved: C11_balanced — for every world, configuration, source, fuel and EVERY outcome (accept, syntax/semantic abort, include "
         "error, stack exhaustion, ...), in the event list of the read every file the library opened has been closed and every buffer "
         "created for an included file deleted (ledger invariant: open paths = current files of the frames on the include stack, buffer "
         "balance = stack depth; carried through yylex and the parser loop; readCore's unwinding closes the rest); "
         "C11_caller_stream_untouched; C11_names_live / C11_setting_names_live (the error file and every setting's file name are owned "
         "by the configuration's file-name vector, also for the partial tree of a failed read); C11_names_released_by_clear. Runtime "
         "part: for generated include forests a fault (delete, directory, syntax error, duplicate, mismatched element, include function "
         "error / empty / NULL) is injected at every file and line position (quick: a seeded half), through config_read_file, "
         "config_read_string and config_read on a stream the harness then examines and closes; after each: open-descriptor delta 0, "
         "__lsan_do_recoverable_leak_check 0, error file as expected, dump of all file names under ASan."),
   note=TB + "Partial: leaks inside generated flex/bison code and libc are observed by LeakSanitizer, not proved; the model's event list has two documented deviations that the harness cannot observe (a spurious fclose event for an unopenable later file; fopen+fclose of a directory is one failed fopen event).",
   technique='resource-ledger invariant proved in Lean 4 for every failure point + fault injection at every file/line with fd and LSan oracles + all-paths theorems (CF_*) about the control flow of __config_read / config_read_file / the include stack translated from the source', ref='§5 C11'),
 'C12': dict(
   text=("For every configuration and every outcome of the I/O steps (an arbitrary oracle): C12_iff (success is reported exactly when open, "
         "every write incl. the flush, the requested fsync and the close succeeded), C12_success_complete (then the file holds exactly "
         "config_write's bytes), C12_failure_reported (error type FILE_IO), C12_call_order (flush before fsync, close last). The control "
         "flow model is tied to config_write_file by fault enumeration on the real code: RLIMIT_FSIZE = n for byte offsets n across the "
         "output (all of them in the thorough tier for outputs up to 6000 bytes), /dev/full, missing directory, directory as target, "
         "interposed failing fsync() and fclose(), fsync option off/on, outputs smaller and larger than the stdio buffer. In addition the "
         "control flow of config_write_file itself is TRANSLATED from the source on every run (Generated/CFlowSource.lean: the statement "
         "tree with the source text of every statement and condition) and CF_write_success / CF_write_failure / CF_write_close are "
         "decided by the kernel over ALL its paths: success only after a tested flush AND a tested ferror, a tested fsync when requested, "
         "a tested fclose, in that order; every other path records the I/O error; an opened stream is closed exactly once."),
   note=TB + "stdio's reporting of failed write(2) calls through fflush/ferror and the kernel are trusted. tools/ctranslate.py (clang AST source "
        "ranges -> statement tree) is part of the trusted base of the CF_* theorems; they assume nothing about what the called functions compute.",
   technique='decision-logic theorems over an I/O fault oracle in Lean 4 + all-paths theorems about the translated control flow of config_write_file + fault enumeration correspondence', ref='§5 C12'),
 'C13': dict(
   text=("Partial. Proved: C13_sites — in the inventory of raw allocation calls (malloc/calloc/realloc/strdup/...; extracted on every run from "
         "the PREPROCESSED C and C++ translation units, generated scanner and parser included, so YYMALLOC and flex's allocators are "
         "resolved) every call sits inside a checked wrapper; C13_wrappers — the wrappers have the catalogued text (allocate, test, call "
         "the handler); C13_kth/C13_nofault/C13_beyond — in the abstract program model a failing request invokes the handler in the very "
         "action that made it and nothing later runs. Fault enumeration on the real code: for six scenarios (parse of strings/names/nested "
         "aggregates/includes from string and file, API construction across the 16-child growth steps, set_string, set_include_dir + "
         "include, write, overrides; strings assembled from several pieces across the 64-byte string-buffer growth steps) the k-th "
         "allocation requested by library code is failed for EVERY k; each must reach the handler; and two failures in one process "
         "with a handler that leaves by longjmp (as the C++ layer's throw does) must both reach it. C++ layer: every allocation inside a "
         "scenario of C++ calls (construction, reads, lookups, every non-throwing lookupValue overload, iteration, writes) is failed in turn; "
         "each must surface as std::bad_alloc, never as a normal return with a different result."),
   note=TB + "Not decided: behaviour after a handler that returns (documented as undefined); allocations inside libc.",
   technique='kernel-decided theorem over a translated allocation-site inventory + abstract failure model in Lean 4 + exhaustive single-fault (and repeated-fault) enumeration', ref='§5 C13'),
 'C14': dict(
   text=("Partial. Proved: C14_statics / C14_imports — over inventories re-extracted on every run (nm on the compiled objects + preprocessed "
         "source; a static array counts as written as soon as it is used at all), the only static object ever written is the fatal-error "
         "function pointer and no imported function is on the POSIX "
         "not-thread-safe list; C14_serial / C14_independent — in the footprint model every schedule gives every thread exactly the state "
         "and outputs of running alone (induction over the schedule, any number of threads, any programs). Validation on the real code: "
         "2..16 threads run independent workloads (parse from string and file with includes, failing parses, edits, removals, lookups, "
         "writes with different options/precisions incl. huge floats and precisions above 15, write_file + read back) under "
         "ThreadSanitizer, the very first library use of the process being concurrent; failing reads and per-thread allocation faults "
         "with a handler that leaves by longjmp are part of the workload (a failure on one thread must not change what a later failure "
         "on any thread does); each thread's transcript is compared with its serial run."),
   note=TB + "The C memory model and libc internals are outside the model; TSan sees executed paths only. The C++ layer is exercised by a second TSan harness (threads constructing, using and destroying their own Config objects); known finding C14:cpp-constructor-writes-global-handler (every Config constructor writes the process-wide fatal-error function pointer) is reproduced and classified per report on every run.",
   technique='kernel-decided theorems over translated static-object/import inventories + commutation theorem in Lean 4 + TSan transcript comparison', ref='§5 C14'),
 'C15': dict(
   text=("Locale state machine (process-wide radix, optional thread locale): C15_inside (radix '.' inside every read/write), C15_restore "
         "(override then restore is the identity on the locale state — the repaired defect is the negative example), C15_global_untouched, "
         "C15_results/C15_independent (a computation between override and restore does not depend on the locale set-up). Tied to the code "
         "with a comma-decimal locale synthesised offline: global C/comma x thread none/comma, through the three read entry points and "
         "every outcome of a read (success, parse error, failing caller stream, file whose read fails, missing file), config_write, "
         "config_write_file + read back and a failing config_write_file; observed: written text, round trip, uselocale(NULL) identity, setlocale(LC_ALL,NULL), "
         "printf radix before/after; and two threads whose calls overlap in time (one parked inside its include function in the middle of "
         "a read while the other reads and writes floats), under all four set-ups."),
   note=TB + "Only the radix character is modelled; the C++ wrappers call the same C functions (checked under C17).",
   technique='state-machine theorems in Lean 4 + differential correspondence under a synthesised comma-decimal locale + all-paths theorems (CF_*) about the control flow of __config_read / config_read_file / the include stack translated from the source', ref='§5 C15'),
 'C20': dict(
   text=("C20_chunking: the generated matcher's result (rule, length) is independent of how the input is cut into buffer refills "
         "(scanPartial_append, for every table set, every chunking, no size bound); C20_string_stream: the string and stream entry points "
         "are the same function of a NUL-free text; C20_file_stream — reading a file is a simulation of reading the stream of its bytes: same "
         "result, same error text and line, same tree up to the recorded file name (which only the file entry point knows), for every "
         "world, text and fuel (a relation between the two parser runs carried through yylex and the parser loop); C20_three_entries "
         "combines them. Tied to the code by reading the same bytes through "
         "config_read_string, config_read on fmemopen and on an fopencookie stream delivering 1/7/4095/4096/8191/8192/8193/random-sized "
         "pieces, an fopencookie stream whose delivery is interrupted by a signal (EINTR) and resumed, and config_read_file, with every token kind slid across the 8 KiB, 16 KiB (and 32 KiB) boundaries and single tokens "
         "that exactly fill or overflow flex's 16 KiB buffer, every read made on a configuration whose previous read failed (no state of an "
         "earlier call may leak into the outcome); direct oracle: equal result, error text, line and tree."),
   note=TB + "flex's buffer refill arithmetic is modelled too (FlexBuffer.lean: yy_create_buffer / yy_flush_buffer / yy_get_next_buffer stage by stage, pinned to the generated text by Properties/Skeleton.lean and validated against an instrumented scanner.c) with C20B_in_bounds (every load and store inside the current allocation, num_to_read >= 1 whenever YY_INPUT is called), C20B_content (no byte lost or duplicated across moves, growth and refills), C20B_progress / C20B_no_livelock, C20B_flex_many (the buffered matcher = Flex.next on the idealised input) and C20B_seeded_breaks_all (with the growth test `< 0` the invariant fails for every buffer size: the seeded change, refuted in general). yyrealloc is assumed to succeed; sizes are Nat with an explicit no-overflow condition (streams shorter than 2^30-1 bytes).",
   technique='chunking-independence and entry-point simulation theorems in Lean 4 + differential correspondence at buffer boundaries', ref='§5 C20'),
 'C16': dict(
   text=("Conservation theorems: with a destructor registered, every operation (C16_conservation) and every read "
         "(C16_conservation_read, by an invariant over the parser loop) logs exactly the hooks that leave the tree — as a permutation "
         "equation between the hooks before, the destructor log and the hooks after; hence C16_once (no hook logged twice), C16_alive "
         "(never for a setting still alive), C16_nodup_preserved, C16_destroy (everything released), C16_children_first (post-order), "
         "C16_removeElem, C16_setHook_silent, C16_no_destructor. All histories, all trees. The model's destructor log is compared with the "
         "real destructor calls per operation. String half: every (old, new) pair of string assignments in every kind of parent — NULL, "
         "empty, long, all byte values, and the setting's own string passed back in —, the include directory likewise, a member "
         "overridden under its own name string; the harness overwrites the caller's buffers after each call, holds strings the "
         "library handed out (values, names, include directory) across unrelated activity and compares them afterwards, all under "
         "ASan/LSan, which is what observes the copy/lifetime part of the property on the real code. Hooks under allocation faults: every "
         "allocation of an override/remove/re-read history fails in turn with a handler that jumps out of the library; after "
         "config_destroy every attached hook has been released exactly once."),
   note=TB + "String-handle lifetime is observed by ASan and the held-string comparison on the implementation, not modelled (the model has value semantics). One defect repaired (a library-owned string passed back in was read after being freed: 3 sites).",
   technique='conservation law (multiset of live hooks) proved in Lean 4 by induction, including the parser loop; differential correspondence on destructor logs', ref='§5 C16'),
 'C17': dict(
   text=("Cpp.lean defines every C++ operation as its own precondition checks followed by the corresponding C model function, so "
         "agreement with the C API is structural; 54 theorems: every cast to every supported C++ type equals the C getter mapped through "
         "the exception table with the exact range rules (C17_cast_*), every exception of a Setting member carries getPath() of that "
         "setting plus the documented suffix and each member throws only what its documented table lists (C17_exception_table, "
         "C17_exception_path), getPath = __constructPath resolves back (via C06_getPath), lookupValue/exists never throw and leave the "
         "output untouched exactly when the lookup or conversion fails (C17_*_lookupValue*, C17_never_throws), iteration visits children "
         "0..n-1 in order (C17_iterate), reads/writes throw exactly when the C call fails with the C error record (C17_handleError, "
         "C17_read, C17_writeFile, via C09), wrappers are freed with their settings (C17_wrapper_count, via C16 conservation), "
         "add/remove/assign map C failures to the documented exceptions. The C++ harness performs every call through the public C++ API "
         "and then the corresponding C call on the same objects; a Python re-derivation of the documented table is the direct oracle; "
         "45 op kinds, boundary pools (INT_MIN/MAX+-1, 2^31, 2^32, 2^63, binary32 edges, NULL strings), malformed stream, auto-convert "
         "off/on, sentinel-initialised outputs, wrapper leak/dangling counters under ASan/LSan, and every k-th library allocation failed "
         "in a C++ scenario (must surface as std::bad_alloc)."),
   note=TB + "Known finding C17:getFormat-after-setDefaultFormat (cached _type/_format; the generator stays away from the stale situations, one dedicated case reproduces it). Three defects repaired (two crashes; silent out-of-range long long assignment). An allocation failure inside std::stringstream while building an exception path is swallowed by the stream (truncated path instead of bad_alloc): recorded as an evidence note.",
   technique='C++ layer modelled by delegation to the proved C model; exception-table theorems in Lean 4 + call-for-call differential harness', ref='§5 C17'),
 'C18': dict(
   text=("C18_equiv: for every byte string over the full alphabet, every start condition and both BOL states, the matcher compiled into "
         "scanner.c (tables re-translated on every run) selects exactly the rule and length that the documented token definitions select "
         "(longest match, earliest rule on ties) — proved by a kernel-checked bisimulation certificate between the flex automaton and the "
         "Brzozowski-derivative automaton of the documented regular expressions (checkCert_sound lifts the finite check to all inputs); "
         "C18_longest_first (declarative meaning of the selection), C18_never_skipped (flex's default ECHO rule is never selected: every "
         "byte begins a token or is reported as garbage), C18_lineno (every rule whose language contains a newline is flagged for line "
         "counting). Independent direct oracle: a Python tokenizer written from the documented definitions, compared with the real "
         "libconfig_yylex token stream (kinds, names, unescaped strings) on generated and mutated inputs."),
   note=TB + "The generic matching loop Flex.lean is a hand-written model of the skeleton flex emits; the manual's <float> pattern has a typo (mandatory sign in the second alternative) — scanner.l is followed, kernel-checked distinguishing example in Properties/C18.lean. The kernel check takes about 2 minutes when the tables change.",
   technique='automaton equivalence: kernel-checked bisimulation certificate (decide +kernel, no native_decide) with a soundness theorem in Lean 4; tables regenerated from scanner.c', ref='§5 C18'),
 'C19': dict(
   text=("Theorems: C19_bytes (config_write's bytes are exactly the rendering of an item sequence), C19_tokens_invariant (any two "
         "presentation settings give the same token sequence up to white space, ';', '='/':' and number spelling), C19_member_layout + "
         "C19_indent (every member on its own line, indented depth×width spaces or depth tabs), C19_clamp, C19_semicolon_only. All "
         "configurations, all option words. The writer model is compared byte for byte with the real config_write under random option "
         "vectors, tab widths 0..65535, precisions, default formats."),
   note=TB + BR + "That the scanner re-tokenises those bytes into the same items is C01's subject (C01_lex_items).",
   technique='structural-induction theorems about the writer model in Lean 4 + byte-exact differential correspondence', ref='§5 C19'),
}

READY = ['C01', 'C02', 'C03', 'C04', 'C05', 'C06', 'C07', 'C08', 'C09', 'C10', 'C11', 'C12', 'C13', 'C14', 'C15', 'C16', 'C17', 'C18', 'C19', 'C20']
NOT_YET = "check under construction in this round (model part exists, no registered check yet); see DESIGN.md §9"

def main():
    checks = []
    for pid in props:
        if pid in CHECKS and pid in READY:
            c = CHECKS[pid]
            checks.append({
                'property_id': pid,
                'quick_cmd': 'python3 tools/check.py %s --tier quick' % pid,
                'thorough_cmd': 'python3 tools/check.py %s --tier thorough' % pid,
                'evidence_file': 'evidence/%s.json' % pid,
                'replay_cmd_template': 'python3 tools/replay.py {path}',
                'engine': 'lean-model',
                'level_claimed': {'category': 'proof', 'text': c['text'], 'design_ref': c['ref']},
                'level_note': c['note'],
                'technique': c['technique'],
            })
    m = {
        'version': 1,
        'setup_cmd': 'python3 tools/setup.py',
        'hooks': {
            'guard': 'LIBCONFIG_VERIF',
            'enable': 'no source hooks are needed: harness/build.sh compiles /repo/lib/*.c itself with -DLIBCONFIG_VERIF, sanitizers and -Wl,--wrap interposers',
            'baseline_off_cmd': 'cmake -S /repo -B /verif/.work/baseline -G Ninja >/dev/null && cmake --build /verif/.work/baseline >/dev/null && ctest --test-dir /verif/.work/baseline -j8 --timeout 900',
            'source_commits': [],
            'add_only': True,
        },
        'engines': [{'name': 'lean-model', 'path': 'lean/', 'serves_properties': sorted(READY),
                     'kind_free_text': 'Lean 4 model + theorems (lake project), translator tools/translate.py, correspondence harness harness/ + tools/'}],
        'checks': checks,
        'notes': 'All checks share tools/check.py: translate -> lake build (obligations) -> axiom/sorry audit -> harness build from /repo -> correspondence -> direct oracle -> known-findings filter -> evidence. See DESIGN.md.',
        'not_applicable': [{'property_id': p, 'reason': NOT_YET} for p in props if p not in READY],
    }
    json.dump(m, open(os.path.join(VERIF, 'MANIFEST.json'), 'w'), indent=1)

if __name__ == '__main__':
    main()
