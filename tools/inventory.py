"""Inventories re-extracted from /repo on every run (used by C13 and C14):
  * every call of a raw allocating libc function in the library's translation units, with its
    enclosing function (from the PREPROCESSED source, so macros such as YYMALLOC are resolved);
  * every object with static storage duration (from `nm` on the compiled objects) with the flags
    'written' / 'address taken' (textual scan of the preprocessed source);
  * the libc functions each object imports (`nm -u`).
"""
import os, re, subprocess, tempfile, shutil

ALLOC_FUNCS = ['malloc', 'calloc', 'realloc', 'strdup', 'strndup', 'asprintf', 'vasprintf', 'reallocarray', 'aligned_alloc', 'posix_memalign']
C_UNITS = ['libconfig.c', 'scanctx.c', 'strbuf.c', 'strvec.c', 'util.c', 'scanner.c', 'grammar.c']
CXX_UNITS = ['libconfigcpp.c++']
DEFS = ['-DHAVE_USELOCALE', '-DHAVE_NEWLOCALE', '-DHAVE_FREELOCALE', '-DLIBCONFIG_STATIC']

def preprocess(repo, unit, cxx):
    cc = ['g++', '-x', 'c++'] if cxx else ['gcc']
    r = subprocess.run(cc + ['-E'] + DEFS + (['-DLIBCONFIGXX_STATIC'] if cxx else []) + ['-I' + os.path.join(repo, 'lib'), os.path.join(repo, 'lib', unit)],
                       capture_output=True, text=True)
    if r.returncode != 0:
        return None
    # keep only the text that comes from files under <repo>/lib
    out = []
    keep = False
    for line in r.stdout.splitlines():
        m = re.match(r'# \d+ "([^"]+)"', line)
        if m:
            f = m.group(1)
            keep = os.path.abspath(f).startswith(os.path.abspath(os.path.join(repo, 'lib')) + os.sep) or f in ('grammar.y', 'scanner.l', 'scanner.c', 'grammar.c')
            continue
        if keep:
            out.append(line)
    return '\n'.join(out)

def strip_strings(src):
    src = re.sub(r'"(?:[^"\\\n]|\\.)*"', '""', src)
    src = re.sub(r"'(?:[^'\\\n]|\\.)*'", "''", src)
    return src

def functions_with_bodies(src):
    """yield (name, body) for every function definition outside other functions (brace matching on text
    without strings; namespace / extern "C" / class / struct / union / enum braces are transparent)"""
    s = strip_strings(src)
    stack = []          # 'ns' (transparent) or 'fn' / 'blk'
    i = 0
    n = len(s)
    start = None
    name = None
    last_sig_end = 0
    while i < n:
        c = s[i]
        if c == '{':
            head = s[last_sig_end:i]
            if all(k == 'ns' for k in stack):
                if re.search(r'(namespace(\s+[A-Za-z_0-9:]+)?|extern\s+""|\b(class|struct|union|enum)\b[^;{}()]*)\s*$', head):
                    stack.append('ns'); last_sig_end = i + 1
                else:
                    m = None
                    for m in re.finditer(r'([A-Za-z_~][A-Za-z_0-9:~]*(?:\s*operator\s*[^\s(]+)?)\s*\([^{};]*\)\s*(?:const\s*)?(?:[A-Z_]*NOEXCEPT\s*|noexcept\s*|throw\s*\(\)\s*)?(?::[^{};]*)?$', head):
                        pass
                    name = m.group(1) if m else '?'
                    start = last_sig_end      # include the signature and constructor initialisers
                    stack.append('fn')
            else:
                stack.append('blk')
        elif c == '}':
            if stack:
                k = stack.pop()
                if k == 'fn' and all(x == 'ns' for x in stack):
                    yield name, s[start:i + 1]
                    last_sig_end = i + 1
                elif k == 'ns':
                    last_sig_end = i + 1
        elif c == ';' and all(k == 'ns' for k in stack):
            last_sig_end = i + 1
        i += 1

def alloc_sites(repo):
    sites = []
    errors = []
    for unit in C_UNITS + CXX_UNITS:
        cxx = unit in CXX_UNITS
        src = preprocess(repo, unit, cxx)
        if src is None:
            errors.append(unit)
            continue
        for fname, body in functions_with_bodies(src):
            for m in re.finditer(r'(?<![A-Za-z_0-9.>])(?:::)?(' + '|'.join(ALLOC_FUNCS) + r')\s*\(', body):
                # skip declarations like `extern void *malloc (size_t)` that the generated code carries
                before = body[max(0, m.start() - 40):m.start()]
                if re.search(r'(void|char)\s*\*\s*$', before):
                    continue
                sites.append((unit, fname, m.group(1)))
    return sorted(set(sites)), errors

def statics(repo, work):
    objs = []
    imports = set()
    errors = []
    for unit in C_UNITS + CXX_UNITS:
        cxx = unit in CXX_UNITS
        o = os.path.join(work, unit + '.o')
        cc = ['g++', '-x', 'c++', '-DLIBCONFIGXX_STATIC'] if cxx else ['gcc']
        r = subprocess.run(cc + ['-O0', '-w', '-c'] + DEFS + ['-I' + os.path.join(repo, 'lib'), os.path.join(repo, 'lib', unit), '-o', o], capture_output=True, text=True)
        if r.returncode != 0:
            errors.append(unit)
            continue
        src = preprocess(repo, unit, cxx) or ''
        code = strip_strings(src)
        nm = subprocess.run(['nm', '-C', o], capture_output=True, text=True).stdout
        for line in nm.splitlines():
            p = line.split()
            if len(p) >= 2 and p[0] == 'U':
                imports.add(p[1])
            elif len(p) >= 3 and p[1] in 'bBdDsSgGcC':
                name = p[2]
                if name.startswith('.') or name.startswith('_GLOBAL_') or name.startswith('__gnu') or name.startswith('vtable') or name.startswith('typeinfo') or name.startswith('guard variable') or name.startswith('__dso_handle') or name.startswith('std::'):
                    continue
                base = re.sub(r'\.\d+$', '', name.split('::')[-1])
                written = bool(re.search(r'(?<![A-Za-z_0-9.>])' + re.escape(base) + r'\s*(=(?!=)|\+\+|--|\+=|-=|\*=|/=|\|=|&=|\[[^\]]*\]\s*=(?!=))', re.sub(
                    r'static[^;{}]*\b' + re.escape(base) + r'\b[^;]*;', ';', code))) or \
                          bool(re.search(r'(\+\+|--)\s*' + re.escape(base) + r'\b', code))
                addr = bool(re.search(r'&\s*' + re.escape(base) + r'\b', code))
                # an array decays to a pointer wherever it is mentioned: any use other than its declaration exposes its address
                is_array = bool(re.search(r'\bstatic\b[^;{}()=]*\b' + re.escape(base) + r'\s*\[', code))
                if is_array and len(re.findall(r'(?<![A-Za-z_0-9.>])' + re.escape(base) + r'\b', code)) > 1:
                    addr = True
                objs.append((unit, name, p[1], written, addr))
    return sorted(set(objs)), sorted(imports), errors

WRITE_OP = r'\s*(=(?!=)|\+\+|--|\+=|-=|\*=|/=|\|=|&=|\[[^\]]*\]\s*=(?!=))'
SETTERS = ['libconfig_set_fatal_error_func', 'config_set_fatal_error_func']

def static_writers(repo, objs):
    """(unit, object, function) for every function whose body writes a static object that is written at all, and
    (unit, function, callee) for every call of the functions that set the process-wide fatal-error handler"""
    writers, setter_calls = [], []
    for unit in C_UNITS + CXX_UNITS:
        src = preprocess(repo, unit, unit in CXX_UNITS)
        if src is None:
            continue
        names = sorted({re.sub(r'\.\d+$', '', n.split('::')[-1]) for u, n, _, w, _ in objs if u == unit and w})
        for fname, body in functions_with_bodies(src):
            inner = body[body.index('{'):] if '{' in body else body
            for base in names:
                if re.search(r'(?<![A-Za-z_0-9.>])' + re.escape(base) + WRITE_OP, re.sub(r'static[^;{}]*\b' + re.escape(base) + r'\b[^;]*;', ';', inner)) or \
                   re.search(r'(\+\+|--)\s*' + re.escape(base) + r'\b', inner):
                    writers.append((unit, base, fname))
            for callee in SETTERS:
                if re.search(r'(?<![A-Za-z_0-9.>])' + callee + r'\s*\(', inner):
                    setter_calls.append((unit, fname, callee))
    return sorted(set(writers)), sorted(set(setter_calls))

WRAPPER_TEXTS = {
 'libconfig_malloc': "{void*ptr=malloc(size);if(!ptr)libconfig_fatal_error(__libconfig_malloc_failure_message);return(ptr);}",
 'libconfig_calloc': "{void*ptr=calloc(nmemb,size);if(!ptr)libconfig_fatal_error(__libconfig_malloc_failure_message);return(ptr);}",
 'libconfig_realloc': "{ptr=realloc(ptr,size);if(!ptr)libconfig_fatal_error(__libconfig_malloc_failure_message);return(ptr);}",
 'libconfig_strdup': "{char*r=strdup(s);if(!r)libconfig_fatal_error(__libconfig_malloc_failure_message);return(r);}",
 'libconfig_fatal_error': "{__libconfig_fatal_error_func(message);}",
}

def wrappers_known(repo):
    import cextract
    try:
        src = open(os.path.join(repo, 'lib', 'util.c')).read()
    except OSError:
        return False
    for name, want in WRAPPER_TEXTS.items():
        m = re.search(r'\b' + name + r'\s*\([^)]*\)\s*(\{.*?\n\})', src, flags=re.S)
        if not m or cextract.normalise(m.group(1)) != want:
            return False
    return True

def lstr(s):
    return '"' + s.replace('\\', '\\\\').replace('"', '\\"') + '"'

def generate(repo, out_dir, write_if_changed):
    verif = os.path.dirname(os.path.dirname(os.path.abspath(__file__)))
    work = tempfile.mkdtemp(prefix='inventory-', dir=os.path.join(verif, '.work'))
    try:
        sites, e1 = alloc_sites(repo)
        objs, imports, e2 = statics(repo, work)
        writers, setter_calls = static_writers(repo, objs)
    finally:
        shutil.rmtree(work, ignore_errors=True)
    L = ['/- GENERATED by tools/inventory.py from the preprocessed sources and `nm` of /repo/lib — do not edit. -/',
         'namespace Libconfig.Generated', '',
         'structure AllocSite where', '  unit : String', '  func : String', '  callee : String', 'deriving Repr, DecidableEq', '',
         'structure StaticObj where', '  unit : String', '  name : String', '  sect : String', '  written : Bool', '  addressTaken : Bool', 'deriving Repr, DecidableEq', '',
         '/-- every call of a raw allocating libc function in the library\'s own code, with its enclosing function -/',
         'def allocSites : List AllocSite := [']
    L.append(',\n'.join('  ⟨%s, %s, %s⟩' % (lstr(u), lstr(f), lstr(c)) for u, f, c in sites))
    L += [']', '', '/-- every object with static storage duration that is not in a read-only section -/', 'def staticObjects : List StaticObj := [']
    L.append(',\n'.join('  ⟨%s, %s, %s, %s, %s⟩' % (lstr(u), lstr(n), lstr(s), 'true' if w else 'false', 'true' if a else 'false') for u, n, s, w, a in objs))
    L += [']', '', '/-- undefined symbols of the library\'s objects (functions imported from libc / libstdc++) -/', 'def imports : List String := [']
    L.append(',\n'.join('  ' + lstr(i) for i in imports))
    L += [']', '', '/-- (unit, object, function): every function whose body writes a static object -/', 'def staticWriters : List (String × String × String) := [']
    L.append(',\n'.join('  (%s, %s, %s)' % (lstr(u), lstr(o), lstr(f)) for u, o, f in writers))
    L += [']', '', '/-- (unit, function, callee): every call, in the library, of a function that sets the process-wide fatal-error handler -/', 'def handlerSetterCalls : List (String × String × String) := [']
    L.append(',\n'.join('  (%s, %s, %s)' % (lstr(u), lstr(f), lstr(c)) for u, f, c in setter_calls))
    L += [']', '', '/-- translation units that could not be preprocessed / compiled (must be empty) -/',
          'def inventoryErrors : List String := [%s]' % ', '.join(lstr(x) for x in sorted(set(e1 + e2))), '',
          '/-- the checked allocation wrappers of util.c have their catalogued text (allocate, test for NULL, call the fatal error function) -/',
          'def wrappersKnown : Bool := %s' % ('true' if wrappers_known(repo) else 'false'), '', 'end Libconfig.Generated', '']
    write_if_changed(os.path.join(out_dir, 'Inventory.lean'), '\n'.join(L))
    return {'alloc_sites': len(sites), 'static_objects': len(objs), 'imports': len(imports), 'errors': sorted(set(e1 + e2))}
