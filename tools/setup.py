#!/usr/bin/env python3
"""MANIFEST.setup_cmd: regenerate the translated model parts from /repo and build the whole Lean
library and the driver (offline, files on disk only)."""
import os, sys, time
sys.path.insert(0, os.path.dirname(os.path.abspath(__file__)))
import vlib
t0 = time.time()
info = vlib.translate()
print('translate:', info)
# root module imports every module so that `lake build` checks all of them
lean = vlib.LEAN
mods = []
for root, _, files in os.walk(os.path.join(lean, 'LibconfigModel')):
    for f in sorted(files):
        if f.endswith('.lean'):
            rel = os.path.relpath(os.path.join(root, f), lean)[:-5].replace(os.sep, '.')
            mods.append(rel)
mods.sort()
text = ''.join('import %s\n' % m for m in mods)
p = os.path.join(lean, 'LibconfigModel.lean')
if not os.path.exists(p) or open(p).read() != text:
    open(p, 'w').write(text)
ok, log = vlib.lake_build(['LibconfigModel', 'driver'], timeout=7200)
print(log[-3000:])
print('setup: %s in %.0fs' % ('ok' if ok else 'FAILED', time.time() - t0))
sys.exit(0 if ok else 1)
