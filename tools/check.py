#!/usr/bin/env python3
"""python3 tools/check.py <Cxx> [--tier quick|thorough] [--replay file]

Decides one property: regenerate the translated parts of the model from /repo, rebuild the
Lean obligations, audit them, rebuild the harness from /repo, run the correspondence and
the property's direct oracle, filter known findings, write evidence/<id>.json.
exit 0 = held on everything explored; exit 1 + "VIOLATION property=<id> replay=<path>".
"""
import argparse, json, os, re, shutil, sys, time, traceback
sys.path.insert(0, os.path.dirname(os.path.abspath(__file__)))
import vlib
from vlib import Rng, VERIF, LEAN

import props   # registry: per-property streams, projections, oracles

def main():
    ap = argparse.ArgumentParser()
    ap.add_argument('prop')
    ap.add_argument('--tier', default=os.environ.get('VERIF_TIER', 'quick'))
    ap.add_argument('--replay')
    a = ap.parse_args()
    prop = a.prop
    tier = a.tier if a.tier in ('quick', 'thorough') else 'quick'
    seed = int(os.environ.get('VERIF_SEED', '1'))
    if prop not in props.REGISTRY:
        print('unknown property', prop); return 2
    P = props.REGISTRY[prop]
    t0 = time.time()
    work = os.path.join(vlib.WORK_ROOT, '%s-%s' % (prop, tier))
    shutil.rmtree(work, ignore_errors=True)
    os.makedirs(work)
    violations = []      # dicts: kind, what, replay (path), found_input (bool)
    known_hits = []
    notes = []
    refdir = None
    cov = {'obligations': 0, 'discharged': 0, 'checker_cmd': '', 'trusted_base': [], 'samples': []}

    def violation(kind, what, payload, found_input):
        n = len(violations)
        path = os.path.join(work, 'replay-%d.json' % n)
        payload = dict(payload)
        payload.update({'property': prop, 'kind': kind, 'what': what, 'seed': seed, 'tier': tier})
        with open(path, 'w') as f:
            json.dump(payload, f, indent=1)
        # keep a copy outside the scratch directory (the corpus replays it first next time)
        cdir = os.path.join(VERIF, 'corpus', prop)
        violations.append({'kind': kind, 'what': what, 'replay': path, 'found_input': found_input})

    try:
        # 1. translation
        tinfo = vlib.translate()
        cov['translation'] = tinfo
        cov['translation_differs_from_reference'] = vlib.generated_differs_from_reference()
        # 2. obligations
        modules = P.get('modules', [])
        ok_drv, log = vlib.lake_build(['driver'])
        if not ok_drv:
            violation('broken-model', 'the model driver no longer builds against the translated tables',
                      {'log': log[-4000:]}, False)
        thm_names = []
        built = {}
        for m in modules:
            ok, log = vlib.lake_build([m])
            built[m] = ok
            f = os.path.join(LEAN, m.replace('.', '/') + '.lean')
            names = vlib.theorems_in(f) if os.path.exists(f) else []
            thm_names += [(m, n) for n in names]
            if not ok:
                errs = re.findall(r'error: (.*?)(?=\n(?:error|warning|info|✖|✔|$))', log, flags=re.S)
                violation('broken-theorem', 'Lean module %s no longer checks' % m,
                          {'module': m, 'errors': [e[:600] for e in errs[:8]], 'log_tail': log[-3000:]}, False)
        # 3. audit
        hits = vlib.audit_sources()
        if hits:
            violation('audit', 'forbidden construct in Lean sources', {'hits': hits}, False)
        n_obl = 0; n_ok = 0
        ax_report = {}
        for m in modules:
            names = [n for mm, n in thm_names if mm == m]
            n_obl += len(names)
            if built.get(m):
                ax = vlib.print_axioms(m, names, work)
                for n, al in ax.items():
                    ax_report[n] = al
                    if al is None:
                        violation('audit', 'could not print axioms of %s' % n, {'theorem': n}, False)
                    elif set(al) - vlib.ALLOWED_AXIOMS:
                        violation('audit', 'theorem %s depends on axioms %s' % (n, sorted(set(al) - vlib.ALLOWED_AXIOMS)), {'theorem': n, 'axioms': al}, False)
                    else:
                        n_ok += 1
        if tier == 'thorough':
            for m in modules:
                if built.get(m):
                    with vlib.LakeLock():
                        r = vlib.sh(['lake', 'env', 'leanchecker', m], cwd=LEAN, timeout=3600)
                    notes.append('leanchecker %s: rc=%d' % (m, r.returncode))
                    if r.returncode != 0:
                        violation('audit', 'leanchecker rejects %s' % m, {'log': (r.stdout + r.stderr)[-3000:]}, False)
        cov['obligations'] = max(n_obl, 1) if modules else 0
        cov['discharged'] = n_ok if n_obl else 0
        cov['theorems'] = sorted(ax_report.keys())
        cov['axioms_used'] = sorted({a for al in ax_report.values() if al for a in al})
        cov['checker_cmd'] = 'cd lean && lake build ' + ' '.join(modules) + ' && lake env lean <#print axioms of every theorem>' + (' && lake env leanchecker <module>' if tier == 'thorough' else '')
        # 4.-6. property-specific dynamic part
        refdir = None
        if not ok_drv or not all(built.get(m) for m in modules):
            # a proof obligation (or the model itself) broke against the current translation: the search for a
            # failing input uses the model over the committed reference translation - the one the theorems were
            # last proved about - as the specification
            changed = vlib.generated_differs_from_reference()
            if changed:
                refdir, rlog = vlib.build_reference_driver()
                if refdir:
                    ok_drv = True
                    notes.append('failing-input search ran against the reference model (changed translation: %s)' % ', '.join(changed))
                    cov['reference_model_used'] = changed
                else:
                    notes.append('reference model did not build: ' + rlog[-300:])
        if ok_drv:
            ctx = {'work': work, 'tier': tier, 'seed': seed, 'violation': violation, 'known_hits': known_hits,
                   'cov': cov, 'notes': notes, 'replay': a.replay, 'prop': prop}
            P['run'](ctx)
    except Exception as e:
        violation('check-error', 'the check itself failed: %r' % e, {'traceback': traceback.format_exc()}, False)

    # known findings
    for k in known_hits:
        print('KNOWN-FINDING: property=%s %s' % (prop, k))
    cov['trusted_base'] = P.get('trusted_base', []) + [
        'Lean 4.33 kernel; axioms allowed: propext, Classical.choice, Quot.sound (audited by #print axioms every run)',
        'tools/translate.py (tables, action catalogue, constants) — cross-validated by the correspondence runs',
        'hand-written model parts tied to the code only by the correspondence harness (harness/*.c, tools/gen_*.py)']
    cov['notes'] = notes
    cov['known_findings_reproduced'] = known_hits
    if 'evaluations' not in cov:
        cov['evaluations'] = 0
    wall = time.time() - t0
    vlib.write_evidence(prop, tier, seed, cov, wall, len(violations), P.get('assumptions', []))
    # persist replays outside the scratch dir so that the path printed stays valid
    rc = 0
    if violations:
        rdir = os.path.join(VERIF, '.work', 'replays')
        os.makedirs(rdir, exist_ok=True)
        for v in violations:
            dst = os.path.join(rdir, '%s-%s-%s' % (prop, tier, os.path.basename(v['replay'])))
            shutil.copy(v['replay'], dst)
            tail = '' if v['found_input'] else ' no-failing-input-found'
            print('VIOLATION property=%s replay=%s%s' % (prop, dst, tail))
            print('  (%s) %s' % (v['kind'], v['what']))
        rc = 1
    else:
        print('OK property=%s tier=%s obligations=%d discharged=%d evaluations=%d wall=%.1fs' %
              (prop, tier, cov['obligations'], cov['discharged'], cov.get('evaluations', 0), wall))
    shutil.rmtree(work, ignore_errors=True)
    if refdir:
        shutil.rmtree(refdir, ignore_errors=True)
    return rc

if __name__ == '__main__':
    sys.exit(main())
