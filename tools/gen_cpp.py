"""Seeded generator of C++ API histories for property C17 (harness/drv_cpp.cc).

Trees are built through the C++ API (add / assignment) and by readString / readFile of
generated texts; then mostly-valid calls with boundary values (INT_MIN/MAX +-1, 2^31, 2^32,
negative values to unsigned casts, 2^63, doubles around the binary32 range, NULL strings) plus a
malformed stream: wrong types, missing names, out-of-range indices, invalid and duplicate
names, auto-convert off and on.  Like gen_api it learns the tree's shape from the harness's
own `dump` answers.

The wrappers cache the format when they are created (known finding
C17:getFormat-after-setDefaultFormat), so the generator calls setDefaultFormat only while no
wrapper exists and, while the default format is hex, setFormat(hex) on integer settings only.
"""
import struct
from vlib import Rng, hexs
import gen_api, gen_text
from gen_api import parse_dump, all_paths, pstr, rand_string, rand_int, lookup_paths, Shape, \
    VALID_NAMES, INVALID_NAMES, BOOL_NAMES, INT_POOL, INT64_POOL, DBL_POOL, READ_TEXTS, dbl_bits

# C type code -> Setting::Type
CPP_OF_C = {0: 0, 1: 6, 2: 1, 3: 2, 4: 3, 5: 4, 6: 5, 7: 7, 8: 8}
CAST_KINDS = ['bool', 'int', 'uint', 'long', 'ulong', 'int64', 'uint64', 'double', 'float', 'cstr', 'string']
LV_KINDS = ['bool', 'int', 'uint', 'int64', 'uint64', 'double', 'float', 'cstr', 'string']
ASSIGN_KINDS = ['bool', 'int', 'long', 'int64', 'double', 'float', 'cstr', 'string']
KINDS_OF_TYPE = {2: ['int', 'uint', 'long', 'int64', 'uint64', 'ulong'], 3: ['int64', 'uint64', 'int', 'uint', 'long', 'ulong'],
                 4: ['double', 'float'], 5: ['cstr', 'string'], 6: ['bool']}
ASSIGN_OF_TYPE = {2: ['int'], 3: ['int64', 'long'], 4: ['double', 'float'], 5: ['cstr', 'string'], 6: ['bool']}

F32_POOL = [dbl_bits(x) for x in [16777216.0, 16777217.0, 16777218.0, 16777219.0, 3.4028234663852886e38, 3.4028235677973366e38, 3.4028235677973362e38,
                                   3.402823669209385e38, 1.401298464324817e-45, 7.006492321624085e-46, 7.006492321624087e-46, 7e-46, 1.1754943508222875e-38,
                                   1.1754942106924411e-38, 0.1, 0.2, 1.0 / 3.0, 1e38, -1e39, 2.5e-45, 1.0000000596046448, 1.0000000596046447, 1.0000001788139343]]

def rand_dbl(rng):
    """doubles with emphasis on the binary32 range, ties and its overflow / underflow borders"""
    c = rng.below(10)
    if c < 3:
        return rng.choice(DBL_POOL)
    if c < 5:
        return rng.choice(F32_POOL) ^ (rng.below(2) << 63)
    if c < 8:
        # exponent in and around the binary32 range, mantissa random or an exact tie +- 1 ulp
        e = rng.range(1023 - 155, 1023 + 130)
        m = rng.below(1 << 52)
        t = rng.below(4)
        if t == 0:
            m = (m & ~((1 << 29) - 1)) | (1 << 28)
        elif t == 1:
            m = ((m & ~((1 << 29) - 1)) | (1 << 28)) + rng.choice([-1, 1])
        return (rng.below(2) << 63) | (e << 52) | (m & ((1 << 52) - 1))
    return gen_api.rand_dbl(rng)

def spell_path(rng, root, p):
    """a spelling of the path of the setting at index path p: names or [i], separators . : /"""
    cur = root; txt = b''
    for d, i in enumerate(p):
        k = cur.kids[i]
        sep = b'' if d == 0 and rng.chance(2, 3) else bytes([b'.:/'[rng.below(3)]])
        txt += sep + (k.name if k.name is not None and rng.chance(3, 4) else b'[%d]' % i)
        cur = k
    return txt

def count(stats, k):
    stats[k] = stats.get(k, 0) + 1

def outcome(out):
    h = out.split(' | c ')[0]
    if h.startswith('E:'):
        return h.split(':')[1]
    if h.startswith('bad-op') or h == 'unspec':
        return h
    if h in ('0', '0 freed 0'):
        return 'false'
    return 'ok'

PROFILES = {
    'mixed':   dict(build=14, assign=8, cast=12, boundary=6, cfg_lookup=10, set_lookup=12, remove=5, query=10, cfgattr=4, io=5, bad=3),
    'convert': dict(build=8, assign=16, cast=22, boundary=18, cfg_lookup=12, set_lookup=10, remove=1, query=3, cfgattr=3, io=2, bad=1),
    'lookup':  dict(build=16, assign=2, cast=4, boundary=3, cfg_lookup=26, set_lookup=30, remove=3, query=8, cfgattr=2, io=4, bad=3),
    'struct':  dict(build=26, assign=3, cast=3, boundary=2, cfg_lookup=4, set_lookup=8, remove=16, query=18, cfgattr=4, io=10, bad=4),
}

# values at the borders of the C++ integer types, for the setting type that can hold them
BOUNDARY = {
    2: [0, 1, -1, 2**31 - 1, 2**31 - 2, -2**31, -2**31 + 1, 255, 65536],
    3: [0, -1, 1, 2**31 - 1, 2**31, 2**31 + 1, -2**31, -2**31 - 1, 2**32 - 1, 2**32, 2**32 + 1, 2**63 - 1, 2**63 - 2, -2**63, -2**63 + 1, 2**62, 2**53 + 1],
    4: [dbl_bits(x) for x in [0.0, -0.0, -1.0, 0.5, -0.5, 2147483647.0, 2147483648.0, 2147483647.5, -2147483648.0, -2147483649.0, -2147483648.5, 4294967295.0, 4294967296.0,
                               9223372036854775807.0, 9223372036854774784.0, -9223372036854775808.0, -9223372036854777856.0, 1e19, 3.999, -3.999, 1e300, 5e-324]],
}
BOUNDARY_TEXT = (b'i0 = 2147483647; i1 = -2147483648; i2 = -1; i3 = 0x7FFFFFFF; l0 = 2147483648L; l1 = 4294967295L; l2 = 4294967296L; l3 = -1L; '
                 b'l4 = 9223372036854775807L; l5 = -9223372036854775808L; l6 = -2147483649L; f0 = 1e39; f1 = 16777217.0; f2 = 2147483648.0; f3 = -0.5; '
                 b's0 = ""; s1 = "x"; b0 = true; b1 = false; a = [ 4294967295L, -1L ]; g = { h = ( 2147483648L, 1e-46, "" ); };')

INC_TEXT = b'inc_a = 1;\ninc_l = ( 1, 2.5, "z" );\n'

def session(impl, rng, n_ops, profile, stats):
    W = PROFILES[profile]
    fams = [(k, v) for k, v in W.items() if v > 0]
    st = {'root': Shape(None, 1, 0, [], 0), 'dfmt': 0, 'auto': 0}

    def do(op):
        out = impl.do(op)
        w = op.split(' ')
        count(stats, '%s:%s' % (' '.join(w[:2]) if w[0] == 'cpp' else w[0], outcome(out)))
        return out
    def resync():
        r = parse_dump(impl.do('dump'))
        if r is not None:
            st['root'] = r
    def any_wrapper():
        return any(n.hook for _, n in all_paths(st['root']))
    def opening():
        st['dfmt'] = 0; st['auto'] = 0
        if rng.chance(1, 2):
            st['auto'] = 1; do('cpp set_auto_convert 1')
        if rng.chance(1, 4):
            do('cpp set_option 128 1')
        if rng.chance(1, 3):
            st['dfmt'] = 1; do('cpp set_default_format 1')     # no wrapper exists yet
    def read_text():
        c = rng.below(10)
        if c < 5:
            t = gen_text.rand_valid_text(rng)
        elif c < 7:
            t = rng.choice(READ_TEXTS)
        elif c < 8:
            t = BOUNDARY_TEXT
        elif c < 9:
            t = gen_text.mutate(rng, gen_text.rand_valid_text(rng))
        else:
            t = b'top = 1;\n@include "inc.cfg"\nafter = "x";\n'
        return None if b'\x00' in t else t

    do('cpp init')
    opening()
    do('mkfile %s %s' % (hexs(b'inc.cfg'), hexs(INC_TEXT)))
    do('mkdir %s' % hexs(b'dir')); do('mkdir %s' % hexs(b'sub'))     # the model's file system knows directories only by mkdir
    do('mkfile %s %s' % (hexs(b'dir/inc.cfg'), hexs(b'inc_dir = true;\n')))
    if rng.chance(2, 3):
        t = read_text()
        if t is not None:
            do('cpp read_string %s' % hexs(t))
    resync()

    for _ in range(n_ops):
        fam = rng.weighted(fams)
        root = st['root']
        paths = all_paths(root)
        groups = [(p, n) for p, n in paths if n.ty == 1]
        aggs = [(p, n) for p, n in paths if n.ty in (1, 7, 8)]
        seqs = [(p, n) for p, n in paths if n.ty in (7, 8)]
        scalars = [(p, n) for p, n in paths if n.ty in (2, 3, 4, 5, 6)]
        if fam == 'build':
            if rng.chance(3, 5) or not seqs:
                p, n = rng.choice(groups) if rng.chance(9, 10) else rng.choice(paths)
                if len(n.kids) > 24 and rng.chance(3, 4):
                    p, n = rng.choice(groups)
                used = [k.name for k in n.kids if k.name]
                name = rng.weighted([(rng.choice(VALID_NAMES), 14), (rng.choice(used) if used else b'a', 3), (rng.choice(INVALID_NAMES), 2),
                                     (None, 1), (rng.choice(BOOL_NAMES), 1)])
                ty = rng.weighted([(6, 6), (1, 6), (2, 5), (3, 5), (4, 5), (5, 4), (7, 5), (8, 5), (0, 1), (9, 1)])
                do('cpp add %s %s %d' % (pstr(p), hexs(name), ty))
            else:
                p, n = rng.choice(seqs) if rng.chance(9, 10) else rng.choice(paths)
                if n.ty == 7 and n.kids and rng.chance(4, 5):
                    ty = CPP_OF_C[n.kids[0].ty]
                elif n.ty == 7:
                    ty = rng.weighted([(1, 4), (2, 3), (3, 3), (4, 3), (5, 3), (6, 1), (7, 1), (0, 1)])
                else:
                    ty = rng.weighted([(1, 4), (2, 3), (3, 3), (4, 3), (5, 3), (6, 3), (7, 3), (8, 3), (0, 1), (11, 1)])
                do('cpp add_elem %s %d' % (pstr(p), ty))
            resync()
        elif fam == 'assign':
            p, n = rng.choice(scalars or paths)
            kind = rng.choice(ASSIGN_OF_TYPE.get(n.ty, ASSIGN_KINDS)) if rng.chance(2, 3) else rng.choice(ASSIGN_KINDS)
            if kind == 'bool':
                v = '%d' % rng.below(2)
            elif kind == 'int':
                v = '%d' % rand_int(rng, False)
            elif kind in ('long', 'int64'):
                v = '%d' % rand_int(rng, True)
            elif kind in ('double', 'float'):
                v = '%016x' % rand_dbl(rng)
            elif kind == 'cstr':
                v = hexs(rng.weighted([(rand_string(rng), 8), (None, 2)]))
            else:
                v = hexs(rand_string(rng))
            do('cpp assign %s %s %s' % (kind, pstr(p), v))
        elif fam == 'cast':
            p, n = rng.choice(scalars or paths) if rng.chance(9, 10) else rng.choice(paths)
            kind = rng.choice(KINDS_OF_TYPE.get(n.ty, CAST_KINDS)) if rng.chance(1, 2) else rng.choice(CAST_KINDS)
            do('cpp cast %s %s' % (kind, pstr(p)))
        elif fam == 'boundary':
            # a value at a border of the C++ types, then every conversion of it (cast, lookupValue by path and by name)
            t = rng.weighted([(3, 5), (2, 3), (4, 4), (5, 1), (6, 1)])
            cands = [(p, n) for p, n in scalars if n.ty == t]
            if not cands or rng.chance(1, 6):
                used = [k.name for k in root.kids if k.name]
                fresh = [x for x in VALID_NAMES if x not in used]
                if fresh:
                    do('cpp add / %s %d' % (hexs(rng.choice(fresh)), CPP_OF_C[t])); resync()
                    root = st['root']
                    cands = [(p, n) for p, n in all_paths(root) if n.ty == t]
            if cands:
                p, n = rng.choice(cands)
                if t == 2:
                    do('cpp assign int %s %d' % (pstr(p), rng.choice(BOUNDARY[2])))
                elif t == 3:
                    do('cpp assign %s %s %d' % (rng.choice(['int64', 'long']), pstr(p), rng.choice(BOUNDARY[3])))
                elif t == 4:
                    do('cpp assign %s %s %016x' % (rng.choice(['double', 'double', 'float']), pstr(p), rng.choice(BOUNDARY[4]) if rng.chance(1, 2) else rand_dbl(rng)))
                elif t == 5:
                    do('cpp assign cstr %s %s' % (pstr(p), hexs(rng.choice([None, b'', b'x']))))
                else:
                    do('cpp assign bool %s %d' % (pstr(p), rng.below(2)))
                kinds = list(KINDS_OF_TYPE[t]) + [rng.choice(CAST_KINDS) for _ in range(2)]
                if t in (2, 3, 4) and st['auto']:
                    kinds += ['int', 'uint', 'int64', 'uint64', 'double', 'float']
                for kind in kinds:
                    c = rng.below(4)
                    lvk = {'long': 'int64', 'ulong': 'uint64'}.get(kind, kind)
                    if c < 2:
                        do('cpp cast %s %s' % (kind, pstr(p)))
                    elif c < 3 or not p:
                        do('cpp clookup_value %s %s' % (lvk, hexs(spell_path(rng, root, p))))
                    else:
                        par = root
                        for i in p[:-1]:
                            par = par.kids[i]
                        do('cpp lookup_value %s %s %s' % (lvk, pstr(p[:-1]), hexs(n.name)))
        elif fam == 'cfg_lookup':
            if rng.chance(1, 2) and scalars:
                # a typed lookup of an existing scalar by a spelling of its path, mostly with a kind that fits
                p, n = rng.choice(scalars)
                txt = spell_path(rng, root, p)
                kind = rng.choice(KINDS_OF_TYPE.get(n.ty, LV_KINDS)) if rng.chance(2, 3) else rng.choice(LV_KINDS)
                if kind in ('long', 'ulong'):
                    kind = 'uint64'
                do('cpp clookup_value %s %s' % (kind, hexs(txt)))
            else:
                for txt in lookup_paths(rng, root, [], root)[:3]:
                    c = rng.below(5)
                    if c < 2:
                        do('cpp clookup %s' % hexs(txt))
                    elif c < 3:
                        do('cpp cexists %s' % hexs(txt))
                    else:
                        do('cpp clookup_value %s %s' % (rng.choice(LV_KINDS), hexs(txt)))
        elif fam == 'set_lookup':
            p, n = rng.choice(aggs) if rng.chance(5, 6) else rng.choice(paths)
            names = [k.name for k in n.kids if k.name] or [b'a']
            nm = rng.weighted([(rng.choice(names), 7), (b'zz', 1), (None, 1), (rng.choice(names)[:-1] or b'q', 1), (b'', 1)])
            c = rng.below(10)
            if c < 2:
                for txt in lookup_paths(rng, root, p, n)[:3]:
                    do('cpp lookup %s %s' % (pstr(p), hexs(txt)))
            elif c < 4:
                do('cpp member %s %s' % (pstr(p), hexs(nm)))
            elif c < 6:
                i = rng.weighted([(0, 3), (max(len(n.kids) - 1, 0), 3), (len(n.kids), 2), (rng.below(len(n.kids) + 1), 4), (-1, 1), (2**31 - 1, 1), (-2**31, 1)])
                do('cpp elem %s %d' % (pstr(p), i))
            elif c < 9:
                km = None
                for k in n.kids:
                    if k.name == nm:
                        km = k
                kind = rng.choice(KINDS_OF_TYPE.get(km.ty, LV_KINDS)) if km is not None and rng.chance(2, 3) else rng.choice(LV_KINDS)
                if kind in ('long', 'ulong'):
                    kind = 'int64'
                do('cpp lookup_value %s %s %s' % (kind, pstr(p), hexs(nm)))
            else:
                do('cpp exists %s %s' % (pstr(p), hexs(nm)))
        elif fam == 'remove':
            if rng.chance(1, 2):
                p, n = rng.choice(groups) if rng.chance(5, 6) else rng.choice(paths)
                names = [k.name for k in n.kids if k.name]
                nm = rng.weighted([(rng.choice(names) if names else b'a', 8), (rng.choice(VALID_NAMES), 2), (None, 1), (b'', 1)] +
                                  [(x, 3) for x in lookup_paths(rng, root, p, n)[:2]])
                do('cpp remove %s %s' % (pstr(p), hexs(nm)))
            else:
                p, n = rng.choice(aggs) if rng.chance(5, 6) else rng.choice(paths)
                idx = rng.weighted([(0, 3), (max(len(n.kids) - 1, 0), 3), (len(n.kids), 2), (rng.below(len(n.kids) + 1), 4), (2**32 - 1, 1), (2**31, 1)])
                do('cpp remove_idx %s %d' % (pstr(p), idx))
            resync()
        elif fam == 'query':
            p, n = rng.choice(paths)
            c = rng.below(12)
            if c < 3:
                do('cpp info %s' % pstr(p))
            elif c < 5:
                do('cpp get_path %s' % pstr(p))
            elif c < 6:
                do('cpp get_parent %s' % pstr(p))
            elif c < 8:
                pa, na = rng.choice(aggs) if rng.chance(5, 6) else (p, n)
                do('cpp %s %s' % (rng.choice(['iterate', 'citerate']), pstr(pa)))
            elif c < 9:
                if st['dfmt'] == 1:
                    ints = [(q, m) for q, m in paths if m.ty in (2, 3)]
                    if ints:
                        q, m = rng.choice(ints)
                        do('cpp set_format %s 1' % pstr(q)); do('cpp info %s' % pstr(q))
                else:
                    do('cpp set_format %s %d' % (pstr(p), rng.below(2))); do('cpp info %s' % pstr(p))
            elif c < 10:
                do('cpp get_root')
            elif c < 11:
                do('cpp wrappers')
            else:
                do('cpp overloads %d' % rng.below(2))
        elif fam == 'cfgattr':
            op = rng.choice(['set_option %d %d' % (rng.choice([1, 2, 4, 8, 16, 32, 64, 128, 3, 0x30]), rng.below(2)), 'get_option %d' % rng.choice([1, 2, 4, 8, 16, 32, 64, 128, 3, 0]),
                             'set_options %d' % rng.choice([0, 22, 255, 0x3e, 0x80000000, 0xffffffff, rng.below(256)]), 'get_options',
                             'set_auto_convert %d' % rng.below(2), 'get_auto_convert',
                             'set_tab_width %d' % rng.choice([0, 1, 2, 4, 8, 15, 16, 17, 255, 65535]), 'get_tab_width',
                             'set_float_precision %d' % rng.choice([0, 1, 2, 6, 10, 15]), 'get_float_precision',
                             'set_include_dir %s' % hexs(rng.choice([None, b'dir', b'', b'/abs/dir'])), 'get_include_dir',
                             'set_default_format', 'get_default_format'])
            if op == 'set_default_format':
                resync()
                if any_wrapper():
                    op = 'get_default_format'
                else:
                    st['dfmt'] = rng.below(2)
                    op = 'set_default_format %d' % st['dfmt']
            do('cpp ' + op)
        elif fam == 'io':
            c = rng.below(12)
            if c < 4:
                t = read_text()
                if t is not None:
                    do('cpp %s %s' % (rng.choice(['read_string', 'read_string', 'read_stream']), hexs(t)))
            elif c < 6:
                t = read_text()
                if t is not None:
                    fn = rng.choice([b'in.cfg', b'sub/in.cfg'])
                    do('mkfile %s %s' % (hexs(fn), hexs(t)))
                    do('cpp read_file %s' % hexs(rng.weighted([(fn, 6), (b'missing.cfg', 1), (b'dir', 1), (b'', 1)])))
            elif c < 8:
                do('cpp write')
            elif c < 10:
                fn = rng.weighted([(b'out.cfg', 5), (b'nodir/out.cfg', 1), (b'dir', 1), (b'', 1)])
                do('cpp write_file %s' % hexs(fn)); do('cat %s' % hexs(fn))
            elif c < 11:
                do('cpp clear')
            else:
                do('cpp init'); opening()
            resync()
        elif fam == 'bad':
            op = rng.choice(['cpp add /99 %s 1' % hexs(b'a'), 'cpp cast int /0/0/0/0/9', 'cpp clookup -', 'cpp cexists -', 'cpp clookup_value int -',
                             'cpp clookup_value long %s' % hexs(b'a'), 'cpp lookup / -', 'cpp read_file -', 'cpp write_file -', 'cpp assign string / -',
                             'cpp elem /77 0', 'cpp info /5/5/5', 'cpp nonsense', 'cpp cast nokind /', 'cpp remove_idx /9/9 0', 'cpp iterate /123',
                             'cpp clookup %s' % hexs(b'[[0]]'), 'cpp clookup %s' % hexs(b'[99999999999999999999]'), 'cpp clookup %s' % hexs(b':'),
                             'cpp clookup %s' % hexs(b'a..b'), 'cpp cexists %s' % hexs(b'[-1]'), 'cpp clookup_value string %s' % hexs(b'.'),
                             'cpp add / %s 1' % hexs(b'a' * 300), 'cpp member / %s' % hexs(b'a' * 300), 'cpp remove / %s' % hexs(b'.'), 'cpp remove / %s' % hexs(b'a..b')])
            do(op); resync()
    do('dump'); do('cpp wrappers'); do('cpp write'); do('cpp clear'); do('cpp wrappers'); do('cpp init')
