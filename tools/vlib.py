"""Shared machinery of the checks: PRNG, build steps, audit, process runners, evidence."""
import fcntl, json, os, re, shutil, subprocess, sys, time

VERIF = os.path.dirname(os.path.dirname(os.path.abspath(__file__)))
REPO = os.environ.get('VERIF_REPO', '/repo')
# VERIF_LEAN / VERIF_WORK: private copies used by tools/try_mutant.py so that a run against a changed copy of the
# repository (VERIF_REPO) never touches the translated files, the build directory, the scratch space or the
# evidence of the real checks
LEAN = os.environ.get('VERIF_LEAN') or os.path.join(VERIF, 'lean')
WORK_ROOT = os.environ.get('VERIF_WORK') or os.path.join(VERIF, '.work')
EVIDENCE_DIR = os.path.join(VERIF, 'evidence') if REPO == '/repo' and not os.environ.get('VERIF_WORK') else os.path.join(WORK_ROOT, 'evidence')
ALLOWED_AXIOMS = {'propext', 'Classical.choice', 'Quot.sound'}

# ------------------------------------------------------------------ PRNG

class Rng:
    """SplitMix64; every random choice of a run derives from one state."""
    def __init__(self, seed):
        self.s = seed & 0xFFFFFFFFFFFFFFFF
    def next(self):
        self.s = (self.s + 0x9E3779B97F4A7C15) & 0xFFFFFFFFFFFFFFFF
        z = self.s
        z = ((z ^ (z >> 30)) * 0xBF58476D1CE4E5B9) & 0xFFFFFFFFFFFFFFFF
        z = ((z ^ (z >> 27)) * 0x94D049BB133111EB) & 0xFFFFFFFFFFFFFFFF
        return z ^ (z >> 31)
    def below(self, n):
        return self.next() % n if n > 0 else 0
    def choice(self, xs):
        return xs[self.below(len(xs))]
    def chance(self, num, den):
        return self.below(den) < num
    def range(self, lo, hi):
        return lo + self.below(hi - lo + 1)
    def weighted(self, pairs):
        total = sum(w for _, w in pairs)
        r = self.below(total)
        for x, w in pairs:
            if r < w:
                return x
            r -= w
        return pairs[-1][0]
    def fork(self):
        return Rng(self.next())

def hexs(b):
    """bytes -> protocol hex ('=' for empty)"""
    if b is None:
        return '-'
    if len(b) == 0:
        return '='
    return bytes(b).hex()

def unhexs(s):
    if s == '-':
        return None
    if s == '=':
        return b''
    return bytes.fromhex(s)

# ------------------------------------------------------------------ build steps

def sh(cmd, **kw):
    return subprocess.run(cmd, capture_output=True, text=True, **kw)

def translate():
    r = sh([sys.executable, os.path.join(VERIF, 'tools', 'translate.py')])
    try:
        info = json.loads(r.stdout.strip().splitlines()[-1])
    except Exception:
        info = {'error': (r.stdout + r.stderr)[-2000:]}
    return info

class LakeLock:
    def __enter__(self):
        os.makedirs(WORK_ROOT, exist_ok=True)
        self.f = open(os.path.join(LEAN, '.lake-lock'), 'w')
        fcntl.flock(self.f, fcntl.LOCK_EX)
        return self
    def __exit__(self, *a):
        fcntl.flock(self.f, fcntl.LOCK_UN)
        self.f.close()

def lake_build(targets, timeout=3600):
    """Build lake targets; returns (ok, log)."""
    with LakeLock():
        r = sh(['lake', 'build'] + targets, cwd=LEAN, timeout=timeout)
    return r.returncode == 0, (r.stdout + r.stderr)

def strip_lean_comments(src):
    out = []
    i = 0
    depth = 0
    n = len(src)
    while i < n:
        if src.startswith('/-', i):
            depth += 1; i += 2; continue
        if depth > 0 and src.startswith('-/', i):
            depth -= 1; i += 2; continue
        if depth > 0:
            if src[i] == '\n':
                out.append('\n')
            i += 1; continue
        if src.startswith('--', i):
            while i < n and src[i] != '\n':
                i += 1
            continue
        out.append(src[i]); i += 1
    return ''.join(out)

FORBIDDEN = re.compile(r'\bsorry\b|\badmit\b|^axiom\s|\bnative_decide\b|\bbv_decide\b|implemented_by|\bunsafe\s|maxHeartbeats\s+0\b', re.M)

def audit_sources():
    """grep the Lean sources (comments stripped) for forbidden constructs."""
    hits = []
    for root, _, files in os.walk(LEAN):
        if '.lake' in root:
            continue
        for f in files:
            if f.endswith('.lean'):
                p = os.path.join(root, f)
                src = strip_lean_comments(open(p).read())
                for m in FORBIDDEN.finditer(src):
                    line = src.count('\n', 0, m.start()) + 1
                    hits.append('%s:%d: %s' % (os.path.relpath(p, VERIF), line, m.group(0).strip()))
    return hits

def theorems_in(module_file):
    """names of theorems declared in a Properties/*.lean file (with namespace)."""
    src = strip_lean_comments(open(module_file).read())
    ns = []
    names = []
    for line in src.splitlines():
        m = re.match(r'\s*namespace\s+(\S+)', line)
        if m:
            ns.append(m.group(1)); continue
        m = re.match(r'\s*end\s+(\S+)', line)
        if m and ns and ns[-1] == m.group(1):
            ns.pop(); continue
        m = re.match(r'\s*(?:@\[[^\]]*\]\s*)?(?:private\s+|protected\s+)?theorem\s+(\S+)', line)
        if m:
            names.append('.'.join(ns + [m.group(1)]))
    return names

def print_axioms(module, names, workdir):
    """`#print axioms` for each theorem; returns {name: [axioms]} (None if it failed)."""
    if not names:
        return {}
    f = os.path.join(workdir, 'axioms_%s.lean' % module.replace('.', '_'))
    with open(f, 'w') as fh:
        fh.write('import %s\n' % module)
        for n in names:
            fh.write('#print axioms %s\n' % n)
    with LakeLock():
        r = sh(['lake', 'env', 'lean', f], cwd=LEAN, timeout=1800)
    out = r.stdout + r.stderr
    res = {}
    for n in names:
        short = n
        m = re.search(r"'" + re.escape(short) + r"' depends on axioms: \[(.*?)\]", out, flags=re.S)
        if m:
            res[n] = [a.strip() for a in m.group(1).replace('\n', ' ').split(',') if a.strip()]
        elif re.search(r"'" + re.escape(short) + r"' does not depend on any axioms", out):
            res[n] = []
        else:
            res[n] = None
    return res

def build_harness(workdir, driver, extra=(), san=None):
    env = dict(os.environ)
    if san is not None:
        env['VERIF_SAN'] = san
    r = sh([os.path.join(VERIF, 'harness', 'build.sh'), workdir, driver] + list(extra), env=env)
    if r.returncode != 0:
        return None, r.stdout + r.stderr
    return r.stdout.strip().splitlines()[-1], ''

DRIVER_OVERRIDE = None

def driver_path():
    return DRIVER_OVERRIDE or os.path.join(LEAN, '.lake', 'build', 'bin', 'driver')

REFERENCE = os.path.join(VERIF, 'reference', 'Generated')

def generated_differs_from_reference():
    """names of the translated files whose content is no longer what the committed proofs were checked against"""
    out = []
    for f in sorted(os.listdir(REFERENCE)):
        g = os.path.join(LEAN, 'LibconfigModel', 'Generated', f)
        if not os.path.exists(g) or open(g).read() != open(os.path.join(REFERENCE, f)).read():
            out.append(f)
    return out

def build_reference_driver():
    """The model driver built over the committed reference translation (the tables, action catalogue,
    constants and inventories the theorems were last proved about) instead of the current one: used as
    the specification when searching for a failing input after a proof obligation broke."""
    global DRIVER_OVERRIDE
    dst = os.path.join(WORK_ROOT, 'refmodel-%d' % os.getpid())
    shutil.rmtree(dst, ignore_errors=True)
    r = sh(['rsync', '-a', '--exclude', '.lake', LEAN + '/', dst + '/'])
    for f in os.listdir(REFERENCE):
        shutil.copy(os.path.join(REFERENCE, f), os.path.join(dst, 'LibconfigModel', 'Generated', f))
    r = sh(['lake', 'build', 'driver'], cwd=dst, timeout=3600)
    if r.returncode != 0:
        shutil.rmtree(dst, ignore_errors=True)
        return None, (r.stdout + r.stderr)[-2000:]
    DRIVER_OVERRIDE = os.path.join(dst, '.lake', 'build', 'bin', 'driver')
    return dst, ''

def run_model(ops, timeout=1800):
    """Run the Lean driver on a list of op lines; returns list of output lines."""
    r = subprocess.run([driver_path()], input='\n'.join(ops) + '\n', capture_output=True, text=True, timeout=timeout)
    return r.stdout.splitlines(), r.returncode, r.stderr

class Impl:
    """Interactive session with a C harness process (one line in, one line out)."""
    def __init__(self, exe, scratch, env_extra=None):
        os.makedirs(scratch, exist_ok=True)
        env = dict(os.environ)
        env.setdefault('ASAN_OPTIONS', 'detect_leaks=1:abort_on_error=0')
        env.setdefault('UBSAN_OPTIONS', 'print_stacktrace=1')
        if env_extra:
            env.update(env_extra)
        self.errpath = os.path.join(scratch, '..', 'impl-stderr-%d.txt' % os.getpid())
        self.errf = open(self.errpath, 'w')
        self.p = subprocess.Popen([exe, scratch], stdin=subprocess.PIPE, stdout=subprocess.PIPE,
                                  stderr=self.errf, text=True, bufsize=1, env=env)
        self.ops = []
        self.outs = []
        self.dead = False
    def do(self, op):
        if self.dead:
            self.ops.append(op); self.outs.append('<dead>'); return '<dead>'
        try:
            self.p.stdin.write(op + '\n'); self.p.stdin.flush()
            line = self.p.stdout.readline()
        except (BrokenPipeError, OSError):
            line = ''
        if line == '':
            self.dead = True
            line = '<crashed>'
        line = line.rstrip('\n')
        self.ops.append(op); self.outs.append(line)
        return line
    def close(self):
        try:
            self.p.stdin.close()
        except Exception:
            pass
        try:
            rc = self.p.wait(timeout=120)
        except subprocess.TimeoutExpired:
            self.p.kill(); rc = -9
        self.errf.close()
        err = open(self.errpath).read()
        os.unlink(self.errpath)
        return rc, err

# ------------------------------------------------------------------ known findings

def known_findings(prop):
    try:
        d = json.load(open(os.path.join(VERIF, 'known_findings.json')))
    except Exception:
        return []
    return [f for f in d.get('findings', []) if f.get('property') == prop and f.get('status') == 'known']

# ------------------------------------------------------------------ evidence

def write_evidence(prop, tier, seed, coverage, wall, violations, assumptions):
    os.makedirs(EVIDENCE_DIR, exist_ok=True)
    ev = {'property_id': prop, 'tier': tier, 'seed': seed, 'level': 'proof', 'coverage': coverage,
          'assumptions': assumptions, 'wall_s': round(wall, 2), 'violations': violations}
    with open(os.path.join(EVIDENCE_DIR, prop + '.json'), 'w') as f:
        json.dump(ev, f, indent=1)
    return ev
