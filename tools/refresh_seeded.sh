#!/bin/sh
# usage: refresh_seeded.sh <seeded-name>: regenerate a kept patch that only applies with offsets/fuzz against the current /repo
cd "$(dirname "$0")/.."
d=seeded/$1; s=$(mktemp -d /tmp/seedfix-XXXX)
rsync -a --exclude _build --exclude .git /repo/ $s/a/; cp -r $s/a $s/b
patch -p1 -s -d $s/b -i "$PWD/$d/patch.diff" || { echo "does not apply"; rm -rf $s; exit 1; }
find $s/b -name "*.orig" -delete
(cd $s && diff -urN a b | sed -E 's#^(---|\+\+\+) ([ab]/[^\t]*)\t.*#\1 \2#; s#^diff -urN a/(.*) b/(.*)#diff --git a/\1 b/\2#' ) > $d/patch.diff
rm -rf $s; echo refreshed $d
