"""Include forests for C10/C11: line-structured configuration texts (one named setting per line,
unique names, so the position of every named setting is known by construction), ways of cutting
them at line boundaries into trees of files, and a reference expander — independent of the
library and of the Lean model — that computes the spliced text, the provenance of every named
setting and the first include-level error of a tree."""
from vlib import Rng, hexs

MAX_DEPTH = 10                      # documented: nesting up to 10 levels works
E_TOO_DEEP = b'include file nesting too deep'
E_BAD_INCLUDE = b'cannot open include file'
E_CUSTOM = b'custom include error'   # harness/drv_api.c multi_include
E_SYNTAX = b'syntax error'
E_DUP = b'duplicate setting name'
E_MISMATCH = b'mismatched element type in array'

# ------------------------------------------------------------------ line-structured texts

class Line:
    """one line of a configuration text (without its newline)
    name    : the setting whose NAME token is on this line (at most one per line), or None
    initial : the scanner is in the INITIAL start condition at the start of this line
    scalar  : the line is a complete `name = scalar-value terminator` setting in a group context"""
    __slots__ = ('text', 'name', 'initial', 'scalar', 'fault')
    def __init__(self, text, name=None, initial=True, scalar=False, fault=None):
        self.text, self.name, self.initial, self.scalar = text, name, initial, scalar
        self.fault = fault      # None | (error text): reading this line fails with that parse error (C11 fault injection)
    def __repr__(self):
        return 'Line(%r)' % self.text

SCALARS = [b'1', b'-7', b'0x1F', b'42L', b'0xFFL', b'1.5', b'-2.5e3', b'true', b'FALSE', b'"s"', b'"a b"', b'"x" "y"',
           b'"q\\"uote\\\\"', b'2147483648', b'007', b'""', b'"#nocomment"', b'1e-5']

def gen_lines(rng, n, rich=True):
    """about n settings; rich = comments, blank lines, strings and comments spanning lines"""
    out = []
    cnt = [0]
    def fresh():
        cnt[0] += 1
        return rng.choice([b'n', b'k', b'v-', b'q_', b'Set', b'x*']) + str(cnt[0]).encode()
    def term():
        return rng.weighted([(b';', 6), (b',', 1), (b'', 2)])
    def tail():
        if rich and rng.chance(1, 8):
            return rng.choice([b' # c', b' // c', b' /* c */', b'  ', b'\t'])
        return b''
    def val():
        return rng.choice(SCALARS)
    budget = [n]
    def settings(depth, k, ind):
        for _ in range(k):
            if budget[0] <= 0:
                return
            budget[0] -= 1
            if rich and rng.chance(1, 10):
                out.append(Line(rng.choice([b'', b'  ', b'# comment', b'// comment', b'/* c */', b'\t# @include "no"'])))
            if rich and rng.chance(1, 25):
                out.append(Line(ind + b'/* block'))
                out.append(Line(b'   @include "notadirective"', initial=False))
                out.append(Line(b' end */', initial=False))
            kind = rng.weighted([('scalar', 8), ('group', 3 if depth < 4 else 0), ('list', 1 if depth < 3 else 0), ('array', 1),
                                 ('mlarray', 1), ('mlstring', 1 if rich else 0), ('adjstring', 1 if rich else 0)])
            name = fresh()
            eq = rng.choice([b' = ', b' : ', b'=', b' =\t'])
            if kind == 'scalar':
                out.append(Line(ind + name + eq + val() + term() + tail(), name=name, scalar=True))
            elif kind == 'group':
                if rng.chance(1, 4):
                    out.append(Line(ind + name + eq.rstrip(), name=name))
                    out.append(Line(ind + b'{' + tail()))
                else:
                    out.append(Line(ind + name + eq + b'{' + tail(), name=name))
                settings(depth + 1, rng.weighted([(0, 1), (1, 2), (2, 3), (4, 2), (7, 1)]), ind + b'  ')
                out.append(Line(ind + b'}' + term() + tail()))
            elif kind == 'list':
                out.append(Line(ind + name + eq + b'(', name=name))
                m = rng.range(0, 4)
                for i in range(m):
                    comma = b',' if (i < m - 1 or rng.chance(1, 5)) else b''
                    if rng.chance(1, 3):
                        out.append(Line(ind + b'  {'))
                        settings(depth + 2, rng.range(0, 2), ind + b'    ')
                        out.append(Line(ind + b'  }' + comma))
                    else:
                        out.append(Line(ind + b'  ' + val() + comma))
                out.append(Line(ind + b')' + term()))
            elif kind == 'array':
                ek = rng.choice([[b'1', b'2', b'0x3'], [b'1.5', b'2.5'], [b'"a"', b'"b"', b'"c"'], [b'true', b'false'], []])
                out.append(Line(ind + name + eq + b'[ ' + b', '.join(ek) + b' ]' + term() + tail(), name=name, scalar=True))
            elif kind == 'mlarray':
                out.append(Line(ind + name + eq + b'[', name=name))
                m = rng.range(0, 3)
                for i in range(m):
                    out.append(Line(ind + b'  ' + str(i * 3).encode() + (b',' if (i < m - 1 or rng.chance(1, 5)) else b'')))
                out.append(Line(ind + b']' + term()))
            elif kind == 'mlstring':
                out.append(Line(ind + name + eq + b'"first', name=name))
                if rng.chance(1, 2):
                    out.append(Line(b'@include \\"inside a string\\"', initial=False))
                out.append(Line(b'last"' + term(), initial=False))
            else:
                out.append(Line(ind + name + eq + b'"a"', name=name))
                out.append(Line(ind + b'  "b"' + term()))
    while budget[0] > 0:
        settings(0, budget[0], b'')
    return out

# ------------------------------------------------------------------ trees of files

class File:
    """items: Line | Inc, one per line of the file.  actual = the path the library opens (and reports)."""
    def __init__(self, actual, arg):
        self.actual = actual            # None for a top-level string/stream
        self.arg = arg                  # the path as written in the directive
        self.items = []
        self.trailing_nl = True
        self.missing = False            # not created (or deleted) -> cannot be opened
        self.is_dir = False
    def content(self):
        parts = [it.render() for it in self.items]
        b = b'\n'.join(parts)
        if parts and self.trailing_nl:
            b += b'\n'
        return b
    def nlines(self):
        return self.content().count(b'\n') + 1

class Inc:
    """an include directive standing on its own line"""
    def __init__(self, lead, files, trail=b'', special=None):
        self.lead = lead                # spelling up to and including the opening quote
        self.files = files              # the files the include function names, in order
        self.trail = trail              # text behind the closing quote
        self.special = special          # None | 'error' | 'null' | 'empty'  (custom include function behaviours)
        self.text_arg = None            # overrides the written argument (cycles, escapes)
    def argument(self):
        if self.text_arg is not None:
            return self.text_arg
        arg = b'|'.join(f.arg for f in self.files)
        if self.special == 'error':
            # every other time the function also hands back a partial list together with its error ('!!'): same observable
            # behaviour, but the library has a list to release
            return (b'!!' if len(arg) % 2 else b'!') + (arg if arg else b'x')
        if self.special == 'null':
            return b'?' + arg
        if self.special == 'empty':
            return b''
        return arg
    def render(self):
        a = self.argument().replace(b'\\', b'\\\\').replace(b'"', b'\\"')
        return self.lead + a + b'"' + self.trail

Line.render = lambda self: self.text

LEADS = [b'@include "', b'  @include "', b'\t@include\t"', b'@include   "', b' \t @include \t"']

class Namer:
    """unique file names; resolution of a written path against the include directory"""
    def __init__(self, rng, incdir, abs_root, allow_abs):
        self.rng, self.incdir, self.abs_root, self.allow_abs = rng, incdir, abs_root, allow_abs
        self.n = 0
        self.dirs = set()
    def resolve(self, arg):
        if self.incdir is not None and not arg.startswith(b'/'):
            return self.incdir + b'/' + arg
        return arg
    def new(self, weird=False):
        self.n += 1
        base = b'f%d.cfg' % self.n
        if weird:
            base = self.rng.choice([b'we"ird%d.cfg', b'back\\slash%d.cfg', b'sp ace%d.cfg']) % self.n
        if self.allow_abs and self.abs_root is not None and self.rng.chance(1, 3):
            arg = self.abs_root + b'/absd/' + base          # absolute: the include directory is not applied
            self.dirs.add(self.abs_root + b'/absd')
        elif self.incdir is None and self.rng.chance(1, 3):
            arg = b'sub/' + base
            self.dirs.add(b'sub')
        else:
            arg = base
        actual = self.resolve(arg)
        if self.incdir is not None and not arg.startswith(b'/'):
            self.dirs.add(self.incdir)
        return File(actual, arg)

def cut(rng, lines, namer, max_depth, fanout=5, multi=False, depth=0, p_stop=4, empty_ok=True, no_nl_ok=True, weird=False, deep=False):
    """cut `lines` into items of one file; ranges become included files (recursively).
    deep: one long range per level, so that the nesting really reaches max_depth"""
    n = len(lines)
    if depth >= max_depth or n == 0:
        return list(lines)
    if deep:
        starts = [i for i in range(n) if lines[i].initial]
        if not starts:
            return list(lines)
        i = starts[min(len(starts) - 1, rng.below(2))]
        j = max(i, n - rng.below(2))
        f = namer.new()
        f.items = cut(rng, lines[i:j], namer, max_depth, fanout, multi, depth + 1, p_stop, empty_ok, no_nl_ok, weird, deep)
        if no_nl_ok and f.items and rng.chance(1, 4):
            f.trailing_nl = False
        trail = rng.choice([b'', b' ', b'\t# deep']) if (j < n and lines[j].initial) else b''
        return lines[:i] + [Inc(rng.choice(LEADS), [f], trail)] + lines[j:]
    if depth > 0 and n < 2 and rng.chance(1, 2):
        return list(lines)
    if rng.chance(1, p_stop) and depth > 0:
        return list(lines)
    starts = [i for i in range(n) if lines[i].initial]
    if not starts:
        return list(lines)
    k = rng.range(1, fanout) if fanout > 0 else 0
    picks = sorted(set(rng.choice(starts) for _ in range(k)))
    items = []
    pos = 0
    for idx, i in enumerate(picks):
        if i < pos:
            continue
        nxt = picks[idx + 1] if idx + 1 < len(picks) else n
        items += lines[pos:i]
        # the range [i, j): empty now and then, otherwise anything up to the next pick
        if empty_ok and rng.chance(1, 6):
            j = i
        elif rng.chance(1, 2):
            j = nxt
        else:
            j = rng.range(i + 1, nxt)
        seg = lines[i:j]
        nfiles = rng.weighted([(1, 3), (2, 2), (3, 1), (4, 1)]) if multi else 1
        # split seg into nfiles consecutive pieces (some possibly empty)
        cuts = sorted(rng.range(0, len(seg)) for _ in range(nfiles - 1))
        pieces = [seg[a:b] for a, b in zip([0] + cuts, cuts + [len(seg)])]
        files = []
        for pi, piece in enumerate(pieces):
            f = namer.new(weird=weird and rng.chance(1, 6))
            f.items = cut(rng, piece, namer, max_depth, fanout, multi, depth + 1, p_stop, empty_ok, no_nl_ok, weird)
            # only the last file of a frame may lack its final newline (textual inlining would
            # otherwise join two lines; see IncludeTreeOK in Properties/C10.lean)
            if no_nl_ok and pi == len(pieces) - 1 and f.items and rng.chance(1, 4):
                f.trailing_nl = False
            files.append(f)
        # text behind the closing quote: a comment only where the scanner is back in INITIAL after the
        # included text (behind a file that ends inside a string or block comment it would become part of it)
        if j < n and lines[j].initial:
            trail = rng.choice([b'', b'', b'', b' ', b'  # after', b'\t// x', b' /* y */'])
        else:
            trail = rng.choice([b'', b'', b' '])
        items.append(Inc(rng.choice(LEADS), files, trail))
        pos = j
    items += lines[pos:]
    return items

def all_files(top):
    """every File reachable from top (top first), without repetition"""
    seen, out = set(), []
    def rec(f):
        if id(f) in seen:
            return
        seen.add(id(f)); out.append(f)
        for it in f.items:
            if isinstance(it, Inc):
                for g in it.files:
                    rec(g)
    rec(top)
    return out

# ------------------------------------------------------------------ reference expander

class Expect:
    def __init__(self):
        self.spliced = b''
        self.prov = {}            # name -> (file or None, line)
        self.error = None         # (text, file or None, line) as the property text prescribes
        self.finding = None       # (text, file, line) tolerated alternative: known finding C10:missing-non-first-file-location
        self.opened = 0
        self.max_depth = 0

class _Stop(Exception):
    pass

def expand(top, custom):
    """walk the tree the way the documentation describes include processing; stops at the first
    include-level error.  Independent of the implementation and of the Lean model."""
    ex = Expect()
    out = []
    def walk(f, depth):
        ex.max_depth = max(ex.max_depth, depth)
        n = len(f.items)
        for idx, it in enumerate(f.items):
            lineno = idx + 1
            nl = b'\n' if (idx < n - 1 or f.trailing_nl) else b''
            if isinstance(it, Line):
                if it.fault is not None:
                    ex.error = (it.fault, f.actual, lineno); raise _Stop()
                if it.name is not None:
                    ex.prov[it.name] = (f.actual, lineno)
                out.append(it.text + nl)
                continue
            # a directive
            if depth == MAX_DEPTH:
                ex.error = (E_TOO_DEEP, f.actual, lineno); raise _Stop()
            if custom and it.special == 'error':
                ex.error = (E_CUSTOM, f.actual, lineno); raise _Stop()
            files = it.files
            if custom and it.special in ('null', 'empty'):
                files = []
            prev = None
            for k, g in enumerate(files):
                if g.missing or g.is_dir:
                    ex.error = (E_BAD_INCLUDE, f.actual, lineno)
                    if k > 0:
                        ex.finding = (E_BAD_INCLUDE, g.actual, prev.nlines())
                    raise _Stop()
                ex.opened += 1
                walk(g, depth + 1)
                prev = g
            out.append(it.trail + nl)
    try:
        walk(top, 0)
    except _Stop:
        pass
    ex.spliced = b''.join(out)
    return ex

# ------------------------------------------------------------------ dump parsing

def parse_dump(line):
    """the tree of a `dump` line: nested tuples (name, ty, fmt, value|[children], hook, line, file)"""
    i = line.find('root=')
    s = line[i + 5:]
    pos = [0]
    def field():
        j = pos[0]
        while s[j] not in ',)]':
            j += 1
        v = s[pos[0]:j]; pos[0] = j
        return v
    def node():
        assert s[pos[0]] == '(', s[pos[0]:pos[0] + 20]
        pos[0] += 1
        name = field(); pos[0] += 1
        ty = field(); pos[0] += 1
        fmt = field(); pos[0] += 1
        if s[pos[0]] == '[':
            pos[0] += 1
            kids = []
            while s[pos[0]] != ']':
                kids.append(node())
                if s[pos[0]] == ',':
                    pos[0] += 1
            pos[0] += 1
            value = kids
        else:
            value = field()
        pos[0] += 1
        hook = field(); pos[0] += 1
        ln = field(); pos[0] += 1
        fl = field()
        assert s[pos[0]] == ')'
        pos[0] += 1
        return (name, ty, fmt, value, hook, int(ln), fl)
    return node()

def named_positions(tree, acc=None):
    """{name(bytes): [(file(bytes)|None, line)]} of every named setting"""
    if acc is None:
        acc = {}
    name, ty, fmt, value, hook, ln, fl = tree
    if name not in ('-',):
        nm = b'' if name == '=' else bytes.fromhex(name)
        f = None if fl == '-' else (b'' if fl == '=' else bytes.fromhex(fl))
        acc.setdefault(nm, []).append((f, ln))
    if isinstance(value, list):
        for k in value:
            named_positions(k, acc)
    return acc

def strip_positions(tree):
    name, ty, fmt, value, hook, ln, fl = tree
    if isinstance(value, list):
        value = tuple(strip_positions(k) for k in value)
    return (name, ty, fmt, value, hook)

def files_of_dump(line):
    i = line.find('files=[')
    j = line.find(']', i)
    body = line[i + 7:j]
    return [] if not body else body.split(',')
