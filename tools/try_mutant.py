#!/usr/bin/env python3
"""python3 tools/try_mutant.py <patch.diff> <Cxx> [<Cyy> ...] [--tier quick]
Apply a seeded change to a scratch copy of /repo, run the named checks against it
(VERIF_REPO), print their verdicts, remove the copy.  /repo itself is never touched."""
import os, shutil, subprocess, sys, tempfile
VERIF = os.path.dirname(os.path.dirname(os.path.abspath(__file__)))
args = [a for a in sys.argv[1:] if not a.startswith('--')]
tier = 'quick'
if '--tier' in sys.argv:
    tier = sys.argv[sys.argv.index('--tier') + 1]; args.remove(tier)
patch, props = os.path.abspath(args[0]), args[1:]
scratch = tempfile.mkdtemp(prefix='mutrepo-', dir='/tmp')
try:
    subprocess.run(['rsync', '-a', '--exclude', '_build', '--exclude', '.git', '/repo/', scratch + '/'], check=True)
    r = subprocess.run(['git', 'apply', '--unsafe-paths', '--directory=' + scratch, patch], capture_output=True, text=True, cwd='/')
    if r.returncode != 0:
        r = subprocess.run(['patch', '-p1', '-d', scratch, '-i', patch], capture_output=True, text=True)
        if r.returncode != 0:
            print('PATCH DOES NOT APPLY:', r.stdout[-500:], r.stderr[-500:]); sys.exit(2)
    # private copies of the Lean project (with its build directory), scratch space and evidence directory:
    # nothing of the real checks' state is touched, so this can run next to them
    leancopy = os.path.join(scratch, '.verif-lean'); workcopy = os.path.join(scratch, '.verif-work')
    subprocess.run(['rsync', '-a', os.path.join(VERIF, 'lean') + '/', leancopy + '/'], check=True)
    os.makedirs(workcopy)
    env = dict(os.environ, VERIF_REPO=scratch, VERIF_LEAN=leancopy, VERIF_WORK=workcopy)
    for p in props:
        r = subprocess.run([sys.executable, os.path.join(VERIF, 'tools', 'check.py'), p, '--tier', tier], capture_output=True, text=True, env=env, cwd=VERIF)
        # keep the replay files: they live in the private scratch space that is removed below
        keep = os.path.join(VERIF, '.work', 'replays'); os.makedirs(keep, exist_ok=True)
        rd = os.path.join(workcopy, 'replays')
        out = r.stdout
        if os.path.isdir(rd):
            for f in os.listdir(rd):
                shutil.copy(os.path.join(rd, f), os.path.join(keep, f))
            out = out.replace(rd, keep)
        lines = [l for l in out.splitlines() if l.startswith(('VIOLATION', 'OK ', 'KNOWN', '  ('))]
        print('%s rc=%d  %s' % (p, r.returncode, ' | '.join(l[:230] for l in lines[:14])))
finally:
    shutil.rmtree(scratch, ignore_errors=True)
