"""Per-property registry: Lean modules (obligations), correspondence streams, projections and
direct oracles.  Each entry's `run(ctx)` performs the dynamic part of the check."""
import json, os, re, shutil, subprocess, sys, time
import vlib, gen_api, gen_text, streams
from vlib import Rng, hexs

# ------------------------------------------------------------------ generic API correspondence

def run_impl_batch(exe, scratch, ops, env_extra=None):
    shutil.rmtree(scratch, ignore_errors=True)
    impl = vlib.Impl(exe, scratch, env_extra)
    for op in ops:
        impl.do(op)
    rc, err = impl.close()
    return impl.outs, rc, err

SHAPE_RE = re.compile(r'\(([0-9a-f=\-]+),(\d+),\d+,')

def shape_of_dump(line):
    """keep nesting, names and types of a dump line; drop values, formats, hooks, positions"""
    i = line.find('root=')
    if i < 0:
        return line
    s = line[i:]
    out = []
    pos = 0
    # tokens: '(' name ',' ty ... we keep "(name,ty" and brackets
    depth_tokens = re.finditer(r'\(([0-9a-f=\-]+),(\d+),|\[|\]|\)', s)
    for m in depth_tokens:
        if m.group(0).startswith('('):
            out.append('(%s,%s' % (m.group(1), m.group(2)))
        else:
            out.append(m.group(0))
    return ''.join(out)

def hooks_of_dump(line):
    return ','.join(re.findall(r',(\d+),\d+,[0-9a-f=\-]+\)', line))

def first_word(op):
    return op.split(' ', 1)[0]

def proj_full(op, out):
    return out

def proj_shape(op, out):
    w = first_word(op)
    if w == 'dump':
        return shape_of_dump(out)
    if w in ('add',):
        return out.split(' ')[0]
    if w in ('remove', 'remove_elem'):
        return out.split(' ')[0]
    if w.startswith('set_') and w.endswith('_elem'):
        return out
    if w in ('length', 'index', 'get_elem', 'get_member', 'wf', 'read_string', 'clear', 'destroy'):
        return out.split(' ')[0]
    if w == 'info':
        return ' '.join(out.split(' ')[:5])
    return None

def proj_lookup(op, out):
    w = first_word(op)
    if w in ('lookup', 'lookup_all', 'get_elem', 'get_member'):
        return out
    if w in ('clookup_val', 'lookup_val'):
        return out
    return None

def proj_convert(op, out):
    w = first_word(op)
    if w in ('get', 'get_elem_val', 'lookup_val', 'clookup_val', 'get_format', 'set_format') or w.startswith('set_int') or \
       w.startswith('set_float') or w.startswith('set_bool') or w.startswith('set_string'):
        return out
    if w == 'dump':
        return out[out.find('root='):] if 'root=' in out else out
    return None

def proj_hooks(op, out):
    w = first_word(op)
    if w in ('add', 'remove', 'remove_elem', 'clear', 'destroy', 'read_string', 'read_file', 'read_stream', 'set_hook'):
        return out
    if w == 'dump':
        return hooks_of_dump(out)
    if w in ('get', 'info') and ('string' in op or w == 'info'):
        return out
    return None

def proj_write(op, out):
    w = first_word(op)
    if w == 'write':
        return out
    return None

TRIVIAL = {'init', 'dump', 'wf', 'lookup_all', 'reset_world'}

def correspondence(ctx, session_fns, project, oracle, what, stream_name, driver='drv_api.c', impl_env=None, extra=(), san=None, model_is_spec=True, probe_ops=()):
    """Run each session (a callable (impl, rng, stats) driving the harness interactively) on the
    implementation, replay the recorded ops on the model, compare the projected outputs and
    evaluate the direct oracle on the implementation's outputs."""
    work = ctx['work']
    exe, log = vlib.build_harness(os.path.join(work, 'h' + (stream_name if san else '')), driver, extra, san)
    if not exe:
        ctx['violation']('harness-build', 'the harness no longer compiles against /repo', {'log': log[-3000:]}, False)
        return
    rng = Rng(ctx['seed'] * 1000003 + hash_str(ctx['prop'] + stream_name))
    stats = {}
    total = 0
    distinct = set()
    samples = []
    n_sessions = 0
    for fn in session_fns:
        srng = rng.fork()
        scratch = os.path.join(work, 'scratch')
        shutil.rmtree(scratch, ignore_errors=True)
        impl = vlib.Impl(exe, scratch, impl_env)
        fn(impl, srng, stats)
        rc, err = impl.close()
        ops, iouts = impl.ops, impl.outs
        n_sessions += 1
        mouts, mrc, merr = vlib.run_model(ops)
        total += len(ops)
        for o, r in zip(ops, iouts):
            if first_word(o) not in TRIVIAL and r != 'bad-op':
                distinct.add((o, r))
        if len(samples) < 3:
            k = min(len(ops), 10)
            samples.append({'stream': stream_name, 'ops': [x[:300] for x in ops[1:k]], 'impl': [x[:300] for x in iouts[1:k]]})
        if rc != 0 or impl.dead or 'ERROR: ' in err or 'runtime error' in err or 'WARNING: ThreadSanitizer' in err:
            idx = len([x for x in iouts if x not in ('<dead>',)])
            ctx['violation']('failing-input', 'the implementation crashed, exited or a sanitizer fired (%s stream)' % stream_name,
                             {'ops': ops[max(0, idx - 30):idx + 1], 'stderr': err[-3000:], 'rc': rc}, True)
            continue
        bad = oracle(ops, iouts) if oracle else None
        if bad is not None:
            i, why = bad
            mini = shrink(exe, work, ops[:i + 1], lambda o, io, mo: oracle(o, io) is not None, impl_env=impl_env)
            ctx['violation']('failing-input', '%s: %s' % (what, why), {'ops': mini, 'impl_last': iouts[i]}, True)
            continue
        if len(mouts) != len(iouts):
            ctx['violation']('broken-correspondence', 'the model driver stopped early (%d of %d lines)' % (len(mouts), len(iouts)),
                             {'ops': ops[max(0, len(mouts) - 5):len(mouts) + 1], 'model_stderr': merr[-2000:]}, False)
            continue
        for i, (o, a, b) in enumerate(zip(ops, iouts, mouts)):
            pa, pb = project(o, a), project(o, b)
            if pa != pb:
                def still(o2, io2, mo2):
                    return any(project(x, y) != project(x, z) for x, y, z in zip(o2, io2, mo2)) or len(io2) != len(mo2)
                mini = shrink(exe, work, ops[:i + 1], still, impl_env=impl_env)
                io2, _, _ = run_impl_batch(exe, os.path.join(work, 'scratch'), mini, impl_env)
                mo2, _, _ = vlib.run_model(mini)
                if model_is_spec:
                    ctx['violation']('failing-input', '%s: implementation and model (the proved specification) disagree on op %r' % (what, (mini[-1] if mini else o)[:200]),
                                     {'ops': mini, 'impl': io2[-3:], 'model': mo2[-3:], 'stream': stream_name}, True)
                elif probe_ops and oracle and oracle(mini + list(probe_ops), run_impl_batch(exe, os.path.join(work, 'scratch'), mini + list(probe_ops), impl_env)[0]) is not None:
                    # the disagreement leads to a state on which the property's own predicate fails
                    po = mini + list(probe_ops)
                    pio = run_impl_batch(exe, os.path.join(work, 'scratch'), po, impl_env)[0]
                    ctx['violation']('failing-input', '%s: %s' % (what, oracle(po, pio)[1]), {'ops': po, 'impl': pio[-3:], 'stream': stream_name}, True)
                else:
                    # the property's own predicate (direct oracle) held on everything explored; what broke is the tie between
                    # the model the theorems are about and the code
                    ctx['violation']('broken-correspondence', '%s: the %s correspondence no longer holds (op %r); the direct oracle found no input on which the property itself fails' % (what, stream_name, (mini[-1] if mini else o)[:200]),
                                     {'ops': mini, 'impl': io2[-3:], 'model': mo2[-3:], 'stream': stream_name,
                                      'no_longer_checks': 'correspondence stream %r between lean/LibconfigModel (theorems %s) and the implementation' % (stream_name, ctx['prop'])}, False)
                break
    cov = ctx['cov']
    cov['evaluations'] = cov.get('evaluations', 0) + total
    cov['distinct_nontrivial'] = cov.get('distinct_nontrivial', 0) + len(distinct)
    cov['rule'] = ('seeded operation streams generated interactively against the implementation (tools/gen_*.py); a case is one '
                   'operation with its result; distinct_nontrivial counts distinct (operation line, implementation result) pairs '
                   'excluding init/dump/oracle ops and out-of-contract addresses')
    cov.setdefault('distribution', {}).update({stream_name: dict(sorted(stats.items()))})
    cov['sessions'] = cov.get('sessions', 0) + n_sessions
    cov['samples'] = cov.get('samples', []) + samples
    cov['traces_validated_against_impl'] = cov.get('traces_validated_against_impl', 0) + n_sessions

def api_correspondence(ctx, profiles, sessions, n_ops, project, oracle, what, stream_name='api', model_is_spec=True, probe_ops=()):
    fns = []
    for profile in profiles:
        for _ in range(sessions):
            fns.append(lambda impl, rng, stats, profile=profile: gen_api.session(impl, rng, n_ops, profile, stats))
    correspondence(ctx, fns, project, oracle, what, stream_name, model_is_spec=model_is_spec, probe_ops=probe_ops)

def hash_str(s):
    h = 0
    for c in s:
        h = (h * 131 + ord(c)) % 1000003
    return h

def shrink(exe, work, ops, still_fails, budget=80, impl_env=None):
    """greedy delta-debugging on the op list: drop chunks while the failure persists"""
    def fails(cand):
        io, rc, err = run_impl_batch(exe, os.path.join(work, 'scratch-shrink'), cand, impl_env)
        mo, _, _ = vlib.run_model(cand)
        if rc != 0 or 'ERROR: ' in err:
            return True
        try:
            return still_fails(cand, io, mo)
        except Exception:
            return False
    cur = list(ops)
    if not fails(cur):
        return cur
    n = 2
    runs = 0
    while len(cur) >= 2 and runs < budget:
        chunk = max(1, len(cur) // n)
        reduced = False
        for start in range(0, len(cur), chunk):
            cand = cur[:start] + cur[start + chunk:]
            if not cand:
                continue
            runs += 1
            if fails(cand):
                cur = cand; n = max(n - 1, 2); reduced = True
                break
            if runs >= budget:
                break
        if not reduced:
            if chunk == 1:
                break
            n = min(n * 2, len(cur))
    return cur

# ------------------------------------------------------------------ oracles

def oracle_wf(ops, outs):
    for i, (o, r) in enumerate(zip(ops, outs)):
        if o == 'wf' and r != 'wf ok':
            return i, 'well-formedness walk of the real structs failed: ' + r
    return None

def oracle_lookup(ops, outs):
    for i, (o, r) in enumerate(zip(ops, outs)):
        if o == 'lookup_all' and r != 'lookup_all ok':
            return i, 'a setting is not found by a spelling of its own path: ' + r
        if 'OUTPUT-TOUCHED' in r:
            return i, 'a failing typed lookup wrote to the output variable'
    return None

def oracle_touched(ops, outs):
    for i, (o, r) in enumerate(zip(ops, outs)):
        if 'OUTPUT-TOUCHED' in r:
            return i, 'a failing typed lookup wrote to the output variable'
    return None

def sizes(ctx, quick, thorough):
    return quick if ctx['tier'] == 'quick' else thorough

# ------------------------------------------------------------------ properties

SMALL_ALPHABET = None
def small_alphabet():
    H = hexs
    return ['add / %s 2' % H(b'a'), 'add / %s 7' % H(b'a'), 'add / %s 1' % H(b'b'), 'add / %s 8' % H(b'a'),
            'add /0 - 2', 'add /0 - 5', 'add /0 %s 2' % H(b'a'), 'remove / %s' % H(b'a'), 'remove / %s' % H(b'b.a'),
            'remove_elem / 0', 'remove_elem /0 0', 'set_int_elem /0 -1 5', 'set_string_elem /0 0 %s' % H(b'x'),
            'set_option 128 1', 'set_int /0 7', 'add / - 2']

def exhaustive_histories(depth):
    """every sequence over the small operation alphabet up to `depth`, each from a fresh configuration"""
    import itertools
    alpha = small_alphabet()
    def fn(impl, rng, stats):
        for l in range(1, depth + 1):
            for seq in itertools.product(range(len(alpha)), repeat=l):
                impl.do('init')
                for i in seq:
                    impl.do(alpha[i])
                impl.do('dump'); impl.do('wf')
                stats['exhaustive:len%d' % l] = stats.get('exhaustive:len%d' % l, 0) + 1
    return fn

def c04_array_type_grid(impl, rng, stats):
    """'array elements are scalars of one type' under every way of appending: first element type x appended type x
    append route (config_setting_add, the five set_*_elem(array, -1, ..), the parser) x auto-convert off/on - the numeric
    types are interchangeable for VALUES under auto-conversion, never for the element type of an array"""
    H = hexs
    tys = [2, 3, 4, 5, 6]
    lit = {2: b'1', 3: b'2L', 4: b'2.5', 5: b'"s"', 6: b'true'}
    for auto in (0, 1):
        for t1 in tys:
            impl.do('init'); impl.do('set_option 1 %d' % auto)
            for k, t2 in enumerate(tys):
                impl.do('add / %s 7' % H(b'a%d' % k)); impl.do('add /%d - %d' % (k, t1))
                impl.do('add /%d - %d' % (k, t2)); impl.do('wf')
            impl.do('add / %s 7' % H(b'e'))
            base = len(tys)
            impl.do('add /%d - %d' % (base, t1))
            for op, arg in (('set_int_elem', '7'), ('set_int64_elem', '5000000000'), ('set_float_elem', '4004000000000000'),
                            ('set_bool_elem', '1'), ('set_string_elem', H(b'x'))):
                impl.do('%s /%d -1 %s' % (op, base, arg)); impl.do('wf')
            impl.do('dump')
            for t2 in tys:
                impl.do('read_string ' + H(b'v = [ ' + lit[t1] + b', ' + lit[t2] + b' ];\nw = [ ' + lit[t1] + b', ' + lit[t1] + b', ' + lit[t2] + b' ];\n'))
                impl.do('wf'); impl.do('dump')
            stats['c04:array-type-grid'] = stats.get('c04:array-type-grid', 0) + 1

def run_C04(ctx):
    s, n = sizes(ctx, (6, 250), (300, 1000))
    d = 3 if ctx['tier'] == 'quick' else 4
    correspondence(ctx, [exhaustive_histories(d)], proj_shape, oracle_wf, 'C04 well-formedness', 'exhaustive<=%d' % d, model_is_spec=False, probe_ops=('wf',))
    ctx['cov']['exhaustive_histories'] = {'alphabet': small_alphabet(), 'max_len': d}
    correspondence(ctx, [c04_array_type_grid], proj_shape, oracle_wf, 'C04 well-formedness', 'array-type-grid', model_is_spec=False, probe_ops=('wf',))
    api_correspondence(ctx, ['structure'], s, n, proj_shape, oracle_wf, 'C04 well-formedness', model_is_spec=False, probe_ops=('wf',))
    # "...succeeding or failing": a call interrupted by an allocation failure whose handler jumps out of the library
    # leaves a well-formed tree (lengths, indices, member lookup agree with the children; walked under ASan)
    c16_hooks_under_faults(ctx, 'C04 well-formedness after an interrupted call')

def c05_remove_paths(impl, rng, stats):
    """config_setting_remove(parent, path) deletes exactly the setting the path addresses - also when the LAST component
    of the path is, besides, the name of a direct member of `parent` (root has port and server.port): every separator,
    from the root and from an inner group, hooks attached so the destructor log shows which setting went"""
    H = hexs
    for dt in (0, 1):
        for sep in (b'.', b':', b'/'):
            for path in (b'server' + sep + b'port', b'server' + sep + b'db' + sep + b'port', b'port', b'server', sep + b'server' + sep + b'port',
                         b'server' + sep + b'nope', b'nope' + sep + b'port', b'lst' + sep + b'[1]' + sep + b'port', b'server' + sep + b'[0]'):
                impl.do('init'); impl.do('set_destructor %d' % dt)
                impl.do('read_string ' + H(b'port = 1; server = { port = 2; db = { port = 3; host = "h"; }; }; lst = ( { port = 4; }, { port = 5; } ); host = "x";\n'))
                impl.do('set_hook /0 11'); impl.do('set_hook /1/0 12'); impl.do('set_hook /1/1/0 13'); impl.do('set_hook /2/1/0 14'); impl.do('set_hook /1 15')
                impl.do('remove / %s' % H(path)); impl.do('dump'); impl.do('wf')
                impl.do('lookup / %s' % H(b'port')); impl.do('lookup / %s' % H(b'server.port')); impl.do('lookup / %s' % H(b'server.db.port'))
                impl.do('remove /1 %s' % H(b'db' + sep + b'port')); impl.do('dump')
                impl.do('destroy')
                stats['c05:remove-by-path'] = stats.get('c05:remove-by-path', 0) + 1

def run_C05(ctx):
    s, n = sizes(ctx, (6, 250), (300, 1000))
    d = 3 if ctx['tier'] == 'quick' else 4
    correspondence(ctx, [exhaustive_histories(d)], proj_full, None, 'C05 ordered-tree behaviour', 'exhaustive<=%d' % d)
    ctx['cov']['exhaustive_histories'] = {'alphabet': small_alphabet(), 'max_len': d}
    api_correspondence(ctx, ['structure', 'hooks'], s, n, proj_full, None, 'C05 ordered-tree behaviour')
    # "an assignment that reports success leaves exactly the assigned value, one that reports failure leaves everything
    # unchanged": the assignment grid (stored type x boundary value x setter kind x auto-convert, direct and element
    # setters), full projection - every answer and the whole dump after it
    correspondence(ctx, [c07_grid], proj_full, None, 'C05 ordered-tree behaviour', 'assignment-grid')
    correspondence(ctx, [c05_remove_paths], proj_full, None, 'C05 ordered-tree behaviour', 'remove-by-path')
    # "an operation that reports failure changes nothing" includes the operation that never returns: every allocation of an
    # add/override/remove history fails in turn, the handler jumps out, the tree is walked (no half-built member)
    c16_hooks_under_faults(ctx, 'C05 a failed operation leaves the tree as it was')

def c06_typed_grid(impl, rng, stats):
    """failing typed lookups must leave the output untouched: stored type x requested type x auto-convert x by-path/by-name"""
    H = hexs
    kinds = ['int', 'int64', 'float', 'bool', 'string']
    for auto in (0, 1):
        impl.do('init'); impl.do('set_option 1 %d' % auto)
        impl.do('read_string ' + H(b'i = 5; big = 5000000000; l = 7L; f = 2.5; huge = 1e300; s = "x"; b = true; g = { i = 1; }; a = [1, 2]; e = ( 1L, 2.5, "s" );'))
        paths = [b'i', b'big', b'l', b'f', b'huge', b's', b'b', b'g', b'a', b'g.i', b'a.[1]', b'e.[0]', b'e.[1]', b'e.[2]', b'nope', b'g.nope', b'a.[2]', b'i.x', b'e.[0].y']
        for path in paths:
            for k in kinds:
                impl.do('clookup_val %s %s' % (k, H(path)))
                if b'.' not in path:
                    impl.do('lookup_val %s / %s' % (k, H(path)))
                stats['c06:typed:%s' % k] = stats.get('c06:typed:%s' % k, 0) + 1

def c06_names_in_aggregates(impl, rng, stats):
    """names passed when adding to lists and arrays are ignored (documented), so every element stays reachable by its
    index path; then every setting is looked up from every ancestor by every spelling (lookup_all)"""
    for ov in (0, 1):
        impl.do('init'); impl.do('set_option 128 %d' % ov)
        impl.do('add / %s 8' % hexs(b'servers')); impl.do('add / %s 7' % hexs(b'ports')); impl.do('add / %s 1' % hexs(b'g'))
        impl.do('add /0 %s 1' % hexs(b'primary')); impl.do('add /0 %s 1' % hexs(b'primary')); impl.do('add /0 %s 2' % hexs(b'n'))
        impl.do('add /0/0 %s 2' % hexs(b'port')); impl.do('add /0 %s 8' % hexs(b'inner')); impl.do('add /0/3 %s 5' % hexs(b'deep'))
        impl.do('add /1 %s 2' % hexs(b'first')); impl.do('add /1 %s 2' % hexs(b'first')); impl.do('add /1 - 2')
        impl.do('add /2 %s 8' % hexs(b'l')); impl.do('add /2/0 %s 6' % hexs(b'b'))
        for path in (b'servers.primary', b'servers.[0]', b'servers.[0].port', b'servers.primary.port', b'servers.[3].[0]', b'servers.inner.deep',
                     b'ports.first', b'ports.[1]', b'g.l.b', b'g.l.[0]', b'servers.[2]', b'servers.n'):
            impl.do('lookup / %s' % hexs(path))
        impl.do('lookup_all'); impl.do('dump'); impl.do('wf')
        stats['c06:names-in-aggregates'] = stats.get('c06:names-in-aggregates', 0) + 1

def c06_long_names(impl, rng, stats):
    """names have no length limit: members whose names are 126..130, 255..257 and 1000 characters long and share every
    shorter one as a prefix, nested twice; each is looked up by its path with every separator from the root and from its
    group, typed, and a missing long name must not resolve"""
    H = hexs
    lens = [1, 63, 64, 126, 127, 128, 129, 130, 255, 256, 257, 1000]
    text = b''.join(b'n' * l + b' = %d;\n' % l for l in lens)
    impl.do('init')
    impl.do('read_string ' + H(text + b'g = {\n' + text + b'h = {\n' + text + b'};\n};\n'))
    for pre in (b'', b'g.', b'g:h/', b'.g.h.'):
        for l in lens + [125, 131, 258, 999, 1001]:
            nm = b'n' * l
            impl.do('lookup / %s' % H(pre + nm)); impl.do('clookup_val int %s' % H(pre + nm))
            stats['c06:long-names'] = stats.get('c06:long-names', 0) + 1
    for l in lens:
        impl.do('get_member /%d %s' % (len(lens), H(b'n' * l))); impl.do('lookup_val int /%d %s' % (len(lens), H(b'n' * l)))
    impl.do('lookup_all'); impl.do('wf')

def run_C06(ctx):
    s, n = sizes(ctx, (6, 200), (300, 1000))
    correspondence(ctx, [c06_names_in_aggregates], proj_full, oracle_lookup, 'C06 path lookup', 'names-in-aggregates')
    correspondence(ctx, [c06_typed_grid], proj_lookup, oracle_lookup, 'C06 path lookup', 'typed-grid')
    correspondence(ctx, [c06_long_names], proj_lookup, oracle_lookup, 'C06 path lookup', 'long-names')
    api_correspondence(ctx, ['lookup'], s, n, proj_lookup, oracle_lookup, 'C06 path lookup')
    # the C++ half of the property: Setting::getPath() of every kind of setting (members, list and ARRAY elements, nested)
    # is the documented path text and resolves back (theorem C06_getPath on the model side; here through the real C++ API)
    import props_c17, gen_cpp
    k, m = (3, 260) if ctx['tier'] == 'quick' else (30, 700)
    fns = [(lambda impl, rng, stats, pr=pr: gen_cpp.session(impl, rng, m, pr, stats)) for pr in (['lookup', 'struct', 'mixed'] * k)[:k]]
    # getPath() of EVERY setting, asked before and again after earlier siblings of an ancestor have been removed (through
    # the C++ API and by name): the same Setting objects, whose position - and that of everything below them - has changed
    def shifted(impl, rng, stats):
        H = hexs
        text = b'srv = ( { name = "a"; ports = [1, 2]; opt = { deep = ( 1, { x = 1; } ); }; }, { name = "b"; ports = [3]; opt = { deep = ( 2, { x = 2; } ); }; }, { name = "c"; opt = { deep = ( 3, { x = 3; } ); }; } );\ng = { first = 1; l = ( ( 1, 2 ), ( 3, { y = 1; } ) ); };\n'
        def all_paths():
            out = impl.do('dump')
            import gen_cpp as G
            r = G.parse_dump(out)
            return [G.pstr(p) for p, _ in G.all_paths(r)] if r is not None else []
        for removal in ('cpp remove_idx /0 0', 'cpp remove_idx /0 1', 'cpp remove %s %s' % ('/1', H(b'first')), 'cpp remove_idx /1/1 0', 'cpp remove_idx /0/0/2/0 0'):
            impl.do('cpp init'); impl.do('cpp read_string %s' % H(text))
            for q in all_paths():
                impl.do('cpp get_path %s' % q)
            impl.do(removal)
            for q in all_paths():
                impl.do('cpp get_path %s' % q)
            stats['c06:getPath-after-shift'] = stats.get('c06:getPath-after-shift', 0) + 1
    correspondence(ctx, fns + [shifted], props_c17.proj, props_c17.make_oracle(), 'C06 getPath round trip (C++ API)', 'cpp-paths', driver='drv_cpp.cc', extra=props_c17.WRAP)

def c07_grid(impl, rng, stats):
    """the property's grid, enumerated: stored type x boundary value x accessor family x auto-convert"""
    H = hexs
    kinds = ['int', 'int64', 'float', 'bool', 'string']
    pools = {'int': gen_api.INT_POOL, 'int64': gen_api.INT64_POOL, 'float': gen_api.DBL_POOL, 'bool': [0, 1, 2], 'string': [b'', b'x', None]}
    # ... x the presentation state a conversion must not depend on: (default format, format of the integer targets)
    for auto, dfmt, fmt in ((0, 0, 0), (1, 0, 0), (0, 0, 1), (1, 1, 0), (0, 1, 1)):
        impl.do('init')
        impl.do('set_option 1 %d' % auto)
        impl.do('set_default_format %d' % dfmt)
        names = {'int': b'i', 'int64': b'l', 'float': b'f', 'bool': b'b', 'string': b's'}
        tcode = {'int': 2, 'int64': 3, 'float': 4, 'string': 5, 'bool': 6}
        for k in kinds:
            impl.do('add / %s %d' % (H(names[k]), tcode[k]))
        impl.do('add / %s 8' % H(b'L'))
        for k in kinds:
            impl.do('add /5 - %d' % tcode[k])
        targets = [('/%d' % i, names[k], None) for i, k in enumerate(kinds)] + [('/5/%d' % i, None, i) for i in range(5)]
        if fmt:
            for pth in ('/0', '/1', '/5/0', '/5/1'):
                impl.do('set_format %s %d' % (pth, fmt))
        n = 0
        for path, name, idx in targets:
            for k in kinds:
                for v in pools[k]:
                    if k in ('int', 'int64', 'bool'):
                        arg = str(v)
                    elif k == 'float':
                        arg = '%016x' % v
                    else:
                        arg = H(v)
                    if idx is None:
                        impl.do('set_%s %s %s' % (k, path, arg))
                    else:
                        impl.do('set_%s_elem /5 %d %s' % (k, idx, arg))
                    for g in kinds:
                        impl.do('get %s %s' % (g, path))
                    g = kinds[n % 5]; n += 1
                    if name is not None:
                        impl.do('lookup_val %s / %s' % (g, H(name)))
                        impl.do('clookup_val %s %s' % (g, H(name)))
                    else:
                        impl.do('get_elem_val %s /5 %d' % (g, idx))
                        impl.do('clookup_val %s %s' % (g, H(b'L.[%d]' % idx)))
                    stats['c07:grid:%s' % k] = stats.get('c07:grid:%s' % k, 0) + 1
        impl.do('dump')

def run_C07(ctx):
    s, n = sizes(ctx, (4, 250), (300, 1000))
    correspondence(ctx, [c07_grid], proj_convert, oracle_touched, 'C07 typed get/set', 'grid')
    ctx['cov']['exhaustive_grid'] = 'stored type x boundary value pool x set kind x get kind x auto-convert off/on (direct, by-name, by-path, by-index)'
    api_correspondence(ctx, ['convert'], s, n, proj_convert, oracle_touched, 'C07 typed get/set')

def c16_strings(ctx):
    """The string half of C16, enumerated: every (old value, new value) pair of config_setting_set_string on string
    settings in every kind of parent - including the setting's own current string passed back in -, the include
    directory likewise, a member overridden under its own name string; strings handed out (values, names, include
    directory) are held by the harness across unrelated activity and compared afterwards.  ASan/LSan observe the
    copies and the frees; the model (value semantics) is the specification of every answer."""
    vals = [b'x', b'', b'a' * 70, bytes(range(1, 256)), None]
    def fn(impl, rng, stats):
        def do(op):
            k = 'c16s:' + op.split(' ')[0]; stats[k] = stats.get(k, 0) + 1
            return impl.do(op)
        for ov in (0, 1):
            for dt in (0, 1):
                do('init'); do('set_option 128 %d' % ov); do('set_destructor %d' % dt)
                do('add / %s 5' % hexs(b's')); do('add / %s 8' % hexs(b'l')); do('add / %s 7' % hexs(b'a')); do('add / %s 1' % hexs(b'g'))
                do('add /3 %s 5' % hexs(b't')); do('add /1 - 5'); do('add /1 - 5'); do('add /2 - 5'); do('add /2 - 5')
                do('set_hook /0 7'); do('set_hook /1/0 8'); do('set_hook /3/0 9')
                n_extra = 0
                for p in ('/0', '/1/0', '/1/1', '/2/0', '/2/1', '/3/0'):
                    for old in vals:
                        for new in vals + ['self']:
                            do('set_string %s %s' % (p, hexs(old)))
                            do('hold 0 value %s' % p); do('hold 1 name %s' % p)
                            # unrelated activity: the root's child vector grows past its chunks, another string changes
                            do('add /3 %s 5' % hexs(b'x%d' % n_extra)); n_extra += 1
                            do('set_string /3/%d %s' % (n_extra, hexs(b'other' * (n_extra % 9))))
                            do('write')
                            do('check_held 0'); do('check_held 1'); do('drop_held 0')
                            if new == 'self':
                                do('set_string_self %s' % p)
                            else:
                                do('set_string %s %s' % (p, hexs(new)))
                            do('get string %s' % p); do('check_held 1')
                    do('set_string_self /1'); do('set_string_self /')      # not strings: refused, nothing touched
                do('dump')
                # the include directory
                dirs = [None, b'd', b'dir/' * 30]
                for old in dirs:
                    for new in dirs + ['self']:
                        do('set_include_dir %s' % hexs(old)); do('hold 2 incdir /'); do('set_tab_width 3'); do('check_held 2'); do('drop_held 2')
                        do('set_include_dir_self' if new == 'self' else 'set_include_dir %s' % hexs(new)); do('get_include_dir')
                # a read whose file name or text is a string the configuration itself owns (config_error_file(), a setting's
                # source file, a string value): copied before the previous contents are released
                do('mkfile %s %s' % (hexs(b'r16bad.cfg'), hexs(b'a = 1;\nb = ;\n')))
                do('mkfile %s %s' % (hexs(b'r16ok.cfg'), hexs(b'p = "r16ok.cfg";\nt = "q = 5; r = \\"r16ok.cfg\\";";\ng = { h = 1; };\n')))
                do('read_file %s' % hexs(b'r16bad.cfg')); do('err'); do('read_alias file errfile'); do('err'); do('dump')
                do('read_alias string errfile'); do('err')
                do('read_file %s' % hexs(b'r16ok.cfg')); do('set_hook /0 31'); do('set_hook /2/0 32')
                do('read_alias_src file /2/0'); do('dump'); do('set_hook /1 33')
                do('read_alias file /0'); do('dump'); do('read_alias string /1'); do('dump'); do('read_alias file /1'); do('err'); do('dump')
                do('read_alias_src file /0'); do('read_alias string /9')
                # a member added again under its own name string: overridden (new one last) or refused
                for ty in (2, 5, 1, 8):
                    do('hold 3 name /0'); do('hold 4 name /1')
                    do('add_self /0 %d' % ty); do('check_held 4'); do('drop_held 3'); do('dump')
                    do('add_self /3/0 %d' % ty); do('dump')
                do('add_self / 2')
                do('destroy')
                # the name argument of an addition is a string owned by the member the addition OVERRIDES (the name of a
                # descendant, a string value inside it) or by an unrelated setting: copied before anything is released
                for ty in (2, 5, 1, 8, 7):
                    for kind, src in (('name', '/0/0'), ('name', '/0/1/0'), ('value', '/0/2'), ('name', '/1'), ('value', '/1'), ('name', '/0/3/0'), ('value', '/0/3/1')):
                        do('init'); do('set_option 128 %d' % ov); do('set_destructor %d' % dt)
                        do('read_string ' + hexs(b'cache = { cache = 1; sub = { cache = 2; }; s = "cache"; l = ( { cache = 3; }, "cache" ); };\nother = "cache";\n'))
                        do('set_hook /0 21'); do('set_hook /0/0 22'); do('set_hook /0/1/0 23')
                        do('add_alias / %s %s %d' % (src, kind, ty)); do('dump'); do('wf')
                        do('add_alias /0 %s %s %d' % (src, kind, ty)); do('dump')
                        do('destroy')
    correspondence(ctx, [fn], proj_full, None, 'C16 string copies and lifetimes', 'strings')

def c16_hooks_under_faults(ctx, what='C16 hooks released exactly once'):
    """C16 x C13: overrides, removals and a re-read on a tree with hooks, every allocation of that history failed in turn
    with a fatal-error handler that jumps out of the library; after config_destroy every attached hook has been
    released exactly once (harness/drv_alloc.c: allochooks)"""
    expect = {}
    def fn(impl, rng, stats):
        out = impl.do('allochooks -1')
        nh = int(out.split(' ')[1]) if out.startswith('count ') else 0
        for k in range(nh + 2):
            impl.do('allochooks %d' % k)
            expect[len(impl.ops) - 1] = k
            stats['c16:hooks-under-fault'] = stats.get('c16:hooks-under-fault', 0) + 1
    def oracle(ops, outs):
        for i, k in expect.items():
            if i < len(outs) and outs[i] != 'hooks ok':
                return i, 'allocation %d of the history fails, the handler jumps out, the configuration is destroyed: %s' % (k, outs[i])
        return None
    correspondence(ctx, [fn], lambda op, out: 'count' if out.startswith('count') else out, oracle, what, 'alloc-faults',
                   driver='drv_alloc.c', extra=('-Wl,--wrap=malloc', '-Wl,--wrap=calloc', '-Wl,--wrap=realloc', '-Wl,--wrap=strdup'),
                   impl_env={'ASAN_OPTIONS': 'detect_leaks=0'})

def run_C16(ctx):
    c16_strings(ctx)
    c16_hooks_under_faults(ctx, 'C16 hooks released exactly once')
    s, n = sizes(ctx, (6, 250), (300, 1000))
    api_correspondence(ctx, ['hooks'], s, n, proj_hooks, None, 'C16 destructor log')
    # the hook released by a removal is the hook of the setting the path addresses - not of a namesake elsewhere
    correspondence(ctx, [c05_remove_paths], proj_hooks, None, 'C16 destructor log', 'remove-by-path')

def c19_value_pool(ctx):
    """every float/int boundary value written under scientific notation on/off x every precision class
    (thorough: all 64 option words), tab widths 0..16, both default formats"""
    def fn(impl, rng, stats):
        impl.do('init')
        impl.do('add / %s 1' % hexs(b'g'))
        i = 0
        for b in gen_api.DBL_POOL:
            impl.do('add /0 %s 4' % hexs(b'f%d' % i)); impl.do('set_float /0/%d %016x' % (i, b)); i += 1
        for v in gen_api.INT64_POOL:
            big = not (-2**31 <= v < 2**31)
            impl.do('add /0 %s %d' % (hexs(b'i%d' % i), 3 if big else 2)); impl.do('set_int%s /0/%d %d' % ('64' if big else '', i, v))
            if i % 3 == 0:
                impl.do('set_format /0/%d 1' % i)
            i += 1
        impl.do('add /0 %s 1' % hexs(b'deep')); impl.do('add /0/%d %s 1' % (i, hexs(b'er'))); impl.do('add /0/%d/0 %s 8' % (i, hexs(b'l')))
        impl.do('add /0/%d/0/0 - 1' % i); impl.do('add /0/%d/0/0/0 %s 5' % (i, hexs(b's')))
        # nesting far beyond what any fixed-size padding buffer holds: 40 levels (depth x width up to 600 columns),
        # groups in groups and groups in lists alternating, a member at every level
        path = '/0/%d' % (i + 1); impl.do('add /0 %s 1' % hexs(b'chain'))
        for lvl in range(40):
            impl.do('add %s %s 2' % (path, hexs(b'm%d' % lvl)))
            if lvl % 3 == 2:
                impl.do('add %s %s 8' % (path, hexs(b'l%d' % lvl))); impl.do('add %s/1 - 1' % path); path = path + '/1/0'
            else:
                impl.do('add %s %s 1' % (path, hexs(b'g%d' % lvl))); path = path + '/1'
        # formats assigned while the default format is decimal and while it is hex (explicitly the same as / different from
        # the default in force at that moment): a later change of the default must change exactly the followers
        impl.do('add /0 %s 1' % hexs(b'fmt')); fp = '/0/%d' % (i + 2); j = 0
        for d0 in (0, 1):
            impl.do('set_default_format %d' % d0)
            for f in (0, 1, None):
                for ty, val in ((2, 255), (3, 2**40 + 10)):
                    impl.do('add %s %s %d' % (fp, hexs(b'd%df%s_%d' % (d0, b'n' if f is None else b'%d' % f, ty)), ty))
                    impl.do('set_int%s %s/%d %d' % ('64' if ty == 3 else '', fp, j, val))
                    if f is not None:
                        impl.do('set_format %s/%d %d' % (fp, j, f))
                    j += 1
            impl.do('add %s %s 7' % (fp, hexs(b'arr%d' % d0)))
            for f in (0, 1):
                impl.do('add %s/%d - 2' % (fp, j)); impl.do('set_int %s/%d/%d 171' % (fp, j, f)); impl.do('set_format %s/%d/%d %d' % (fp, j, f, f))
            j += 1
        for d in (0, 1, 0):
            impl.do('set_default_format %d' % d); impl.do('write'); stats['c19:format-grid-write'] = stats.get('c19:format-grid-write', 0) + 1
        words = range(64) if ctx['tier'] == 'thorough' else [0x20 | rng.below(64), rng.below(64) & ~0x20, rng.below(64)]
        for o in words:
            impl.do('set_options %d' % o)
            for prec in (0, 1, 2, 6, 15):
                impl.do('set_float_precision %d' % prec)
                impl.do('set_tab_width %d' % rng.choice(range(17)))
                impl.do('set_default_format %d' % rng.below(2))
                impl.do('write')
                stats['c19:pool-write'] = stats.get('c19:pool-write', 0) + 1
    def parsed(impl, rng, stats):
        # hex literals parsed while the default format is hex / decimal, then written under both defaults
        for d0 in (0, 1):
            impl.do('init'); impl.do('set_default_format %d' % d0)
            impl.do('read_string ' + hexs(b'a = 0x10; b = 16; c = [ 0xFFL, 255L ]; l = ( 0x1, 1, 0x1L, 1L );'))
            for d in (1 - d0, d0, 1 - d0):
                impl.do('set_default_format %d' % d); impl.do('write'); stats['c19:parsed-format-write'] = stats.get('c19:parsed-format-write', 0) + 1
    correspondence(ctx, [fn, parsed], proj_write, None, 'C19 writer output', 'value-pool')

def run_C19(ctx):
    c19_value_pool(ctx)
    s, n = sizes(ctx, (5, 200), (300, 800))
    api_correspondence(ctx, ['write'], s, n, proj_write, None, 'C19 writer output')

def proj_read(op, out):
    w = first_word(op)
    if w in ('read_string', 'read_stream', 'read_file', 'read_chunked', 'read_eintr'):
        return out.split(' ')[0]
    if w in ('err', 'dump', 'wf', 'write'):
        return out
    return None

def run_C02(ctx):
    L = 6 if ctx['tier'] == 'quick' else 9
    seqs = gen_text.enumerate_prefixes(L)
    expect = {}
    chunk = 4000
    fns = []
    exps = []
    for ov in (False, True):
        for i in range(0, len(seqs), chunk):
            e = {}
            exps.append(e)
            fns.append(streams.sess_c02(seqs[i:i + chunk], ov, e))
    # each session has its own expectation table: run them one by one
    for fn, e in zip(fns, exps):
        correspondence(ctx, [fn], proj_read, streams.oracle_c02(e), 'C02 grammar conformance', 'tokens<=%d' % L)
    ctx['cov']['exhaustive_token_sequences'] = {'max_len': L, 'sequences': len(seqs), 'with_overrides_off_and_on': True}
    # the two recorded findings, reproduced deliberately on their specific inputs (known_findings.json)
    K_LINE = 'C02:string-element-mismatch-line'
    K_STACK = 'C02:parser-stack-limit'
    listed = {f['key']: f['what'] for f in vlib.known_findings('C02')}
    probe_line = b'a = [ 1, "s"\n ];\n'                       # the offending element is on line 1
    probe_deep = b'a = ' + b'(' * 5000 + b')' * 5000 + b';\n'    # derivable from the grammar
    def sess_known(impl, rng, stats):
        impl.do('init')
        impl.do('read_string ' + hexs(probe_line)); impl.do('err')
        impl.do('read_string ' + hexs(probe_deep)); impl.do('err')
    def oracle_known(ops, outs):
        for i, o in enumerate(ops):
            if o == 'read_string ' + hexs(probe_line) and i + 1 < len(outs):
                e = outs[i + 1].split(' ')
                if outs[i].split(' ')[0] != '0' or e[0] != '2' or e[1] != streams.ERR_TEXT['mismatch']:
                    return i + 1, 'mixed array accepted or reported with the wrong message: %s' % outs[i + 1]
                if e[3] != '1':
                    if e[3] == '2' and K_LINE in listed:
                        if (K_LINE + ': ' + listed[K_LINE]) not in ctx['known_hits']:
                            ctx['known_hits'].append(K_LINE + ': ' + listed[K_LINE])
                    else:
                        return i + 1, 'mismatched element on line 1 reported at line %s' % e[3]
            if o == 'read_string ' + hexs(probe_deep) and i + 1 < len(outs):
                if outs[i].split(' ')[0] != '1':
                    e = outs[i + 1].split(' ')
                    if e[0] == '2' and e[1] == b'memory exhausted'.hex() and K_STACK in listed:
                        if (K_STACK + ': ' + listed[K_STACK]) not in ctx['known_hits']:
                            ctx['known_hits'].append(K_STACK + ': ' + listed[K_STACK])
                    else:
                        return i + 1, 'a derivable text (5000 nested lists) is rejected: %s' % outs[i + 1]
        return None
    correspondence(ctx, [sess_known], proj_read, oracle_known, 'C02 grammar conformance', 'known-findings')
    # last definition wins AND takes the place of its last definition: redefinitions that are not adjacent (other members
    # in between), at top level and nested, changing type, several names at once - overrides off (rejected) and on
    OV_TEXTS = [b'a = 1; b = 2; a = 3;', b'a = 1; b = 2; c = 3; a = 4; b = 5;', b'g = { a = 1; b = 2; a = 3; }; h = 1; g = 2;',
                b'a = 1; b = 2; a = "s";', b'a = { x = 1; }; b = 2; a = ( 1, 2 );', b'a = 1; a = 2; b = 3; a = 4;',
                b'l = ( { a = 1; b = 2; a = 3; c = 4; b = 5; } );', b'x = 1; y = 2; z = 3; y = 4; x = 5; z = 6; w = 7; x = 8;']
    def sess_ov(impl, rng, stats):
        for ov in (0, 1):
            for t in OV_TEXTS:
                impl.do('init'); impl.do('set_option 128 %d' % ov)
                impl.do('read_string ' + hexs(t)); impl.do('err'); impl.do('dump'); impl.do('write')
                stats['c02:override-order'] = stats.get('c02:override-order', 0) + 1
    correspondence(ctx, [sess_ov], proj_read, None, 'C02 grammar conformance', 'override-order')
    # random long valid texts and their mutations
    rng = Rng(ctx['seed'] * 7919 + 2)
    n = 150 if ctx['tier'] == 'quick' else 20000
    texts = [gen_text.rand_valid_text(rng) for _ in range(n)]
    correspondence(ctx, [streams.sess_texts(texts, ('string',), tag='valid')], proj_read, None, 'C02 grammar conformance', 'random-valid')
    c02_options_do_not_change_the_grammar(ctx)

def c02_options_do_not_change_the_grammar(ctx):
    """the language accepted and the tree built do not depend on the configuration's options (auto-convert converts VALUES
    on get/set, it does not make an array of mixed numeric types grammatical; the output options concern writing only):
    mixed and homogeneous arrays, lists, groups, every numeric spelling - read under every option word that matters"""
    texts = [b'a = [ 1.5, 2 ];', b'a = [ 1, 2.5 ];', b'a = [ 7, 8L ];', b'a = [ 0x10L, 3 ];', b'a = [ 1, 2, 3.0 ];', b'a = [ 1L, 2L, 3 ];', b'a = [ 1.0, 2.0, 0x1 ];',
             b'a = [ 1, 2 ]; b = [ 1.5, 2.5 ]; c = [ 1L, 2L ];', b'a = ( 1, 2.5, 3L, "s", true );', b'a = [ true, 1 ];', b'a = [ "s", 1.5 ];', b'a = [ 1, "s" ];',
             b'g = { a = [ 1,\n 2,\n 3.5 ]; };', b'a = [ 1 ]; a = [ 2.5 ];', b'l = ( [ 1, 2.5 ] );']
    def fn(impl, rng, stats):
        for opts in (22, 23, 22 | 128, 23 | 128, 0, 1, 255):
            for t in texts:
                impl.do('init'); impl.do('set_options %d' % opts)
                impl.do('read_string ' + hexs(t)); impl.do('err'); impl.do('dump'); impl.do('wf')
                stats['c02:options-grid'] = stats.get('c02:options-grid', 0) + 1
    def oracle(ops, outs):
        # the verdict and the error record of a text under option word 22 (the default) are the reference for every other
        # word that differs from it only in bits that do not concern reading (everything but ALLOW_OVERRIDES = 128)
        ref = {}
        cur = None
        for i, o in enumerate(ops):
            w = o.split(' ')
            if w[0] == 'set_options':
                cur = int(w[1])
            elif w[0] == 'read_string' and i + 1 < len(outs):
                key = (w[1], cur & 128)
                val = (outs[i].split(' ')[0], outs[i + 1])
                if key in ref and ref[key] != val:
                    return i, 'the same text is read differently under option word %d: %r, under another word with the same override bit: %r' % (cur, val, ref[key])
                ref.setdefault(key, val)
        return None
    correspondence(ctx, [fn], proj_read, oracle, 'C02 grammar conformance', 'options-grid')

def run_C08(ctx):
    rng = Rng(ctx['seed'] * 104729 + 8)
    n = 1500 if ctx['tier'] == 'quick' else 300000
    lits = gen_text.numeric_literals(rng, n)
    for i in range(0, len(lits), 5000):
        e = {}
        correspondence(ctx, [streams.sess_c08(lits[i:i + 5000], e)], proj_read, streams.oracle_c08(e), 'C08 numeric literal exactness', 'literals')

def proj_err(op, out):
    w = first_word(op)
    if w in ('read_string', 'read_stream', 'read_file', 'write_file', 'read_stream_fail', 'read_stream_fail1'):
        return out.split(' ')[0]
    if w == 'err':
        return out
    return None

def run_C09(ctx):
    import itertools
    events = streams.c09_events()
    L = 3 if ctx['tier'] == 'quick' else 4
    seqs = []
    for l in range(1, L + 1):
        seqs += list(itertools.product(range(len(events)), repeat=l))
    chunk = 3000
    for i in range(0, len(seqs), chunk):
        e = {}
        correspondence(ctx, [streams.sess_c09(seqs[i:i + chunk], events, e)], proj_err, streams.oracle_c09(e),
                       'C09 error information', 'histories<=%d' % L)
    ctx['cov']['exhaustive'] = True
    ctx['cov']['exhaustive_histories'] = {'events': [e[0] for e in events], 'max_len': L, 'sequences': len(seqs)}
    # the parser's other failure exit (stack exhaustion, yyparse returns 2): before and after every other event
    deep = ('exhausted-string', [], 'read_string ' + hexs(b'a = ' + b'(' * 10001), '2 %s - 1' % b'memory exhausted'.hex())
    # an error in the 2nd / 3rd file of a multi-path include (custom include function): the line is that file's own
    H = hexs
    multi = ('syntax-in-3rd-file-of-multi-include-l2',
             ['set_include_fn 1', 'mkfile %s %s' % (H(b'p1.cfg'), H(b'a = 1;\nb = 2;\nc = 3;\n')), 'mkfile %s %s' % (H(b'p2.cfg'), H(b'd = 4;\n')),
              'mkfile %s %s' % (H(b'p3.cfg'), H(b'e = 5;\nf = ;\n')), 'mkfile %s %s' % (H(b'mt.cfg'), H(b'z = 0;\n@include "p1.cfg|p2.cfg|p3.cfg"\n'))],
             'read_file ' + H(b'mt.cfg'), '2 %s %s 2' % (b'syntax error'.hex(), b'p3.cfg'.hex()))
    # the caller's stream fails after delivering a complete valid text: I/O error record
    iofail = ('failing-stream', [], 'read_stream_fail 0 ' + H(b'a = 1;\nb = 2;\n'), '1 %s - 0' % b'file I/O error'.hex())
    # the stream fails in the middle of a setting: the text delivered so far cannot be a complete configuration, the
    # scanner has asked for more, so the record is the I/O error - not the syntax error of the truncated text
    iomid = ('failing-stream-mid-setting', [], 'read_stream_fail 0 ' + H(b'a = 1;\nb = [ 1, 2,'), '1 %s - 0' % b'file I/O error'.hex())
    # an error located after a token that spans several lines (a string literal with raw newlines): every newline counts
    multiline = ('syntax-after-3-line-string-l5', [], 'read_string ' + H(b's = "one\ntwo\nthree";\nt = 1;\nu = ;\n'), '2 %s - 5' % b'syntax error'.hex())
    # the same two with a TRANSIENT failure: one read fails, the stream then reports end of file - the text is truncated
    # all the same, and the failure must be reported
    iofail1 = ('failing-once-stream', [], 'read_stream_fail1 0 ' + H(b'a = 1;\nb = 2;\n'), '1 %s - 0' % b'file I/O error'.hex())
    iomid1 = ('failing-once-stream-mid-setting', [], 'read_stream_fail1 7 ' + H(b'a = 1;\nb = [ 1, 2,'), '1 %s - 0' % b'file I/O error'.hex())
    # NESTED includes: an error in the middle file AFTER an inner include has returned to it (the file name must be the
    # middle file's again, not the top file's), as a syntax error and as a missing second include
    nfiles = ['set_include_fn 0', 'mkfile %s %s' % (H(b'n_inner.cfg'), H(b'i = 1;\n')),
              'mkfile %s %s' % (H(b'n_mid.cfg'), H(b'@include "n_inner.cfg"\nm = 1;\nbad = ;\n')),
              'mkfile %s %s' % (H(b'n_top.cfg'), H(b't = 1;\n@include "n_mid.cfg"\nu = 2;\n')),
              'mkfile %s %s' % (H(b'n_mid2.cfg'), H(b'@include "n_inner.cfg"\n@include "n_nope.cfg"\n')),
              'mkfile %s %s' % (H(b'n_top2.cfg'), H(b'@include "n_mid2.cfg"\n'))]
    nest1 = ('syntax-in-mid-file-after-inner-include-returned', nfiles, 'read_file ' + H(b'n_top.cfg'),
             '2 %s %s 3' % (b'syntax error'.hex(), b'n_mid.cfg'.hex()))
    nest2 = ('missing-include-in-mid-file-after-inner-include-returned', nfiles, 'read_file ' + H(b'n_top2.cfg'),
             '2 %s %s 2' % (b'cannot open include file'.hex(), b'n_mid2.cfg'.hex()))
    nest3 = ('syntax-in-mid-file-after-inner-include-returned-from-string', nfiles, 'read_string ' + H(b'@include "n_mid.cfg"\n'),
             '2 %s %s 3' % (b'syntax error'.hex(), b'n_mid.cfg'.hex()))
    ev2 = events + [deep, multi, iofail, iomid, multiline, iofail1, iomid1, nest1, nest2, nest3]
    d = len(events); m = d + 1; io = d + 2; im = d + 3; ml = d + 4; io1 = d + 5; im1 = d + 6; n1 = d + 7; n2 = d + 8; n3 = d + 9
    # alone, after a syntax error, before a syntax error, before a missing file; the multi-include error and the failing
    # stream alone, after and before other failures
    seqs2 = [(d,), (1, d), (d, 1), (d, 9), (m,), (1, m), (m, 2), (io,), (1, io), (io, 1), (3, io, 0), (io, m),
             (im,), (1, im), (im, 3), (0, im), (ml,), (3, ml), (ml, 1), (io1,), (1, io1), (io1, 0), (im1,), (im1, 1), (io, im1),
             (n1,), (n2,), (n3,), (1, n1), (n1, 1), (n2, n1), (n1, n2), (io, n2)]
    e = {}
    correspondence(ctx, [streams.sess_c09(seqs2, ev2, e)], proj_err, streams.oracle_c09(e), 'C09 error information', 'stack-exhaustion')

def run_C12(ctx):
    rng = Rng(ctx['seed'] * 15485863 + 12)
    expect = {}
    def fn(impl, r, stats):
        texts = [b'', b'a = 1;', b'a = 1; s = "hello"; g = { x = 1.5; l = (1, 2, "z"); };']
        # outputs larger than the stdio buffer (4 KiB) and than 8 KiB
        texts.append(b''.join(b'k%d = "%s";\n' % (i, b'x' * 50) for i in range(100)))
        texts.append(b''.join(b'k%d = "%s";\n' % (i, b'y' * 90) for i in range(120)))
        # outputs of exactly k*B-1, k*B, k*B+1 bytes for the stdio buffer sizes in use (the last byte alone in a new buffer-load)
        for target in (4095, 4096, 4097, 8191, 8192, 8193, 12289):
            texts.append(b'pad = "%s";\n' % (b'p' * (target - len(b'pad = "";\n'))))
        for text in texts:
            for fsync in (0, 1):
                base = impl.do('wfcase %s %d none 0' % (hexs(text), fsync))
                n = int(base.split(' ')[-1]) if base.split(' ')[-1].isdigit() else 0
                expect[len(impl.ops) - 1] = ('1', n)
                if ctx['tier'] == 'thorough' and n <= 6000:
                    offs = list(range(0, n + 2))
                else:
                    offs = sorted(set([0, 1, 2, n // 2, max(n - 2, 0), max(n - 1, 0), n, n + 1, 4095, 4096, 4097, 8191, 8192, 8193] +
                                      [r.below(n + 1) for _ in range(25)]))
                for k in offs:
                    impl.do('wfcase %s %d fsize %d' % (hexs(text), fsync, k))
                    expect[len(impl.ops) - 1] = ('1' if k >= n else '0', n)
                    stats['c12:fsize:' + ('ok' if k >= n else 'fail')] = stats.get('c12:fsize:' + ('ok' if k >= n else 'fail'), 0) + 1
                for kind, want in (('devfull', '1' if (n == 0 and not fsync) else '0'), ('nodir', '0'), ('isdir', '0'), ('readonly', '0'),
                                   ('fsyncfail', '0' if fsync else '1'), ('fclosefail', '0'), ('existing', '1')):
                    impl.do('wfcase %s %d %s 0' % (hexs(text), fsync, kind))
                    expect[len(impl.ops) - 1] = (want, n)
                    stats['c12:' + kind] = stats.get('c12:' + kind, 0) + 1
    def oracle(ops, outs):
        for i, (want, n) in expect.items():
            if i >= len(outs):
                continue
            f = outs[i].split(' ')
            if f[0] != want:
                return i, 'config_write_file returned %s where the injected fault requires %s (%s)' % (f[0], want, ops[i].split(' ', 2)[2])
            if f[0] == '1' and 'devfull' not in ops[i]:
                disk = '' if f[2] in ('=', '-') else f[2]
                if len(disk) // 2 != n or f[1] != '0':
                    return i, 'success reported but the file holds %d of %d bytes (error type %s)' % (len(disk) // 2, n, f[1])
            if f[0] == '0' and f[1] != '1':
                return i, 'failure reported with error type %s instead of CONFIG_ERR_FILE_IO' % f[1]
        return None
    correspondence(ctx, [fn], proj_full, oracle, 'C12 write_file completeness', 'io-faults', driver='drv_io.c',
                   extra=('-Wl,--wrap=fsync', '-Wl,--wrap=fclose'))

def make_comma_locale(work):
    """synthesise a comma-decimal locale offline: copy C.utf8 and patch the radix byte of LC_NUMERIC"""
    src = '/usr/lib/locale/C.utf8'
    dst = os.path.join(work, 'locale', 'xx_XX.utf8')
    if not os.path.isdir(src):
        return None
    shutil.copytree(src, dst)
    p = os.path.join(dst, 'LC_NUMERIC')
    b = bytearray(open(p, 'rb').read())
    idx = b.find(b'.')
    if idx < 0:
        return None
    b[idx] = 0x2c
    open(p, 'wb').write(b)
    return os.path.join(work, 'locale')

def run_C15(ctx):
    locpath = make_comma_locale(ctx['work'])
    if not locpath:
        ctx['violation']('check-error', 'cannot synthesise a comma-decimal locale in this sandbox', {}, False)
        return
    rng = Rng(ctx['seed'] * 32452843 + 15)
    n = 40 if ctx['tier'] == 'quick' else 600
    floats = [b'1.5', b'-2.25', b'0.1', b'1e10', b'3.14159', b'1e-5', b'123456789.125', b'.5', b'5.', b'1.7976931348623157e308', b'4.9e-324']
    def fn(impl, r, stats):
        for i in range(n):
            k = r.range(1, 4)
            text = b''.join(b'f%d = %s;\n' % (j, r.choice(floats)) for j in range(k)) + b'a = [ 0.5, 2.5e3 ]; l = ( 1.25, "1,5", 7 );\n'
            if r.chance(1, 5):
                text = gen_text.rand_valid_text(r)
            if b'\x00' in text:
                continue
            prec = r.choice([b'', b''])
            # every outcome of a read: success, parse error, I/O error on the caller's stream / on the file,
            # file that cannot be opened (each call is followed by a failing config_write_file too); the same
            # case under the four locale set-ups
            special = ('failstream', 'badfile', 'missing', 'failstream')[(i // 4) % 4] if i % 4 == 0 else None
            tx = text if i % 8 != 1 else gen_text.mutate(r, text).replace(b'\x00', b'')
            for g in (0, 1):
                for t in (0, 1):
                    e = special or r.choice(['string', 'stream', 'file'])
                    out = impl.do('loccase %d %d %s %s' % (g, t, e, hexs(tx)))
                    stats['c15:g%dt%d:%s' % (g, t, e)] = stats.get('c15:g%dt%d:%s' % (g, t, e), 0) + 1
        # float renderings that take the writer's rare paths (the exact %.17g re-rendering near DBL_MAX, exponents, huge
        # fixed notation, denormals) under every option word that matters (scientific notation) and low/high precisions
        rare = b'm = 1.7976931348623157e308;\nn = -1.7976931348623157e308;\np = 1.7976e308;\nq = 1e300;\nr = 4.9e-324;\ns = 123456789.125;\nt = 1e15;\nu = [ 0.5, 1.5e10 ];\n'
        for opts in (22, 22 | 32):
            for pr in (0, 1, 3, 5, 6, 15, 17):
                for g in (0, 1):
                    for t in (0, 1):
                        impl.do('loccase %d %d %s %s %d %d' % (g, t, ('string', 'file', 'stream')[(pr + g + t) % 3], hexs(rare), opts, pr))
                        stats['c15:rare-floats'] = stats.get('c15:rare-floats', 0) + 1
        # two threads whose calls overlap: A parked inside its include function in the middle of a read while B reads
        # and writes floats, under every locale set-up
        for g in (0, 1):
            for t in (0, 1):
                impl.do('locoverlap %d %d' % (g, t)); stats['c15:overlap'] = stats.get('c15:overlap', 0) + 1
    def oracle(ops, outs):
        base = {}
        for i, (o, r) in enumerate(zip(ops, outs)):
            if o.startswith('locoverlap'):
                if r != '1 7750 1 1500 2250 %s 1' % b'a = 1.5;\nb = 2.25;\n'.hex():
                    return i, 'two threads with overlapping reads under a comma locale: %s (A ok, A.y x1000, B ok, B.a x1000, B.b x1000, B text, locales kept)' % r
                continue
            f = r.split(' ')
            if len(f) != 8:
                return i, 'unexpected harness answer %r' % r
            w = o.split(' ')
            if f[4] != '1':
                return i, "the calling thread's locale was replaced"
            if f[5] != '1':
                return i, 'the process-wide locale was changed'
            if f[6] != f[7]:
                return i, 'radix character in effect changed from %s to %s across the calls' % (f[6], f[7])
            want_radix = '44' if (w[2] == '1' or w[1] == '1') else '46'
            if f[6] != want_radix:
                return i, 'the harness set-up did not take effect (radix %s, expected %s)' % (f[6], want_radix)
            if f[0] == '1' and (f[2] != '1' or f[3] != '1'):
                return i, 'written file was not read back to the same text under this locale'
            key = (w[3] if w[3] in ('failstream', 'badfile', 'missing') else 'read', w[4], tuple(w[5:]))
            if key in base and base[key] != (f[0], f[1]):
                return i, 'result or written text differs between locale set-ups'
            base.setdefault(key, (f[0], f[1]))
        return None
    correspondence(ctx, [fn], proj_full, oracle, 'C15 locale independence', 'locales', driver='drv_loc.c', extra=('-lpthread',), impl_env={'LOCPATH': locpath, 'ASAN_OPTIONS': 'detect_leaks=0'})  # glibc's locale loader keeps allocations alive

def run_C20(ctx):
    rng = Rng(ctx['seed'] * 49979687 + 20)
    texts = streams.c20_texts(rng, ctx['tier'])
    # plus small random valid and mutated texts
    small = [gen_text.rand_valid_text(rng) for _ in range(60 if ctx['tier'] == 'quick' else 600)]
    small += [gen_text.mutate(rng, t) for t in small[:len(small) // 2]]
    small = [t for t in small if b'\x00' not in t]
    chunk = 40
    allt = texts + small
    for i in range(0, len(allt), chunk):
        groups = []
        correspondence(ctx, [streams.sess_c20(allt[i:i + chunk], groups)], proj_read, streams.oracle_c20(groups),
                       'C20 entry-point equivalence', 'entries')
    ctx['cov']['boundary_texts'] = len(texts)

def proj_lex(op, out):
    return out if first_word(op) in ('lex', 'lexx') else None

def run_C18(ctx):
    rng = Rng(ctx['seed'] * 86028121 + 18)
    n = 3000 if ctx['tier'] == 'quick' else 400000
    texts = streams.c18_texts(rng, n)
    for i in range(0, len(texts), 10000):
        e = {}
        correspondence(ctx, [streams.sess_c18(texts[i:i + 10000], e)], proj_lex, streams.oracle_c18(e), 'C18 tokenization', 'lex')
    # the full alphabet (NUL bytes inside the data) and the scanner-mode part: directives that expand to no file
    # (custom include function) must leave the scanner in its normal mode
    def fnx(impl, r, stats):
        impl.do('init')
        frag = streams.C18_FRAG
        for k in range(300 if ctx['tier'] == 'quick' else 20000):
            t = b''.join(r.choice(frag + [b'\x00', b'\x00', b' ', b'\n', b'"', b'/*', b'*/', b'#', b'@include "', b'\\']) for _ in range(r.range(1, 8)))
            impl.do('lexx 0 ' + hexs(t)); stats['c18:lexx-nul'] = stats.get('c18:lexx-nul', 0) + 1
        for path in (b'', b'?', b'?x', b'!', b'!boom'):
            for tail in (b'\na = 1;\n', b' b = "s"; c = 2;\n', b'\n@include ""\nz = 0x1;\n', b'x "y" z\n'):
                for head in (b'', b'q = 1;\n', b'  '):
                    impl.do('lexx 1 ' + hexs(head + b'@include "' + path + b'"' + tail)); stats['c18:lexx-include'] = stats.get('c18:lexx-include', 0) + 1
        # directives that DO include files: what follows the directive on its line is scanned in the middle of a line (a
        # second directive there is not a directive), also when the included file does not end in a newline; byte-order marks
        # and CR LF at the start of input, of lines and of included files
        impl.do('mkfile %s %s' % (hexs(b'la.cfg'), hexs(b'x = 1;\n'))); impl.do('mkfile %s %s' % (hexs(b'lb.cfg'), hexs(b'y = 2;\n')))
        impl.do('mkfile %s %s' % (hexs(b'lc.cfg'), hexs(b'x = 1;'))); impl.do('mkfile %s %s' % (hexs(b'ld.cfg'), hexs(b'\xef\xbb\xbfw = 3;\r\n')))
        for t in (b'@include "la.cfg" @include "lb.cfg"\n', b'q = 1;\n@include "la.cfg" @include "lb.cfg" z = 1;\n', b'@include "lc.cfg" @include "lb.cfg"\n',
                  b'@include "lc.cfg"@include "lb.cfg"\n', b'@include "la.cfg"\n@include "lb.cfg"\n', b'@include "la.cfg|lb.cfg" @include "lc.cfg"\n',
                  b'@include "ld.cfg"\nv = 4;\n', b'@include "la.cfg" # c\n@include "lb.cfg"\n', b'@include "la.cfg" /* c */ @include "lb.cfg"\n',
                  b'\xef\xbb\xbfa = 1;\n', b'a = 1;\n\xef\xbb\xbfb = 2;\n', b'a = [ 1,\n\xef\xbb\xbf2 ];\n', b'a = 1;\r\nb = 2;\r\n', b' \xef\xbb\xbfa = 1;\n'):
            impl.do('lexx 1 ' + hexs(t)); impl.do('lexx 0 ' + hexs(t)); stats['c18:lexx-real-includes'] = stats.get('c18:lexx-real-includes', 0) + 1
    correspondence(ctx, [fnx], proj_lex, None, 'C18 tokenization', 'lex-full-alphabet')

def run_C13(ctx):
    expect = {}
    def fn(impl, rng, stats):
        for sc in range(7):
            out = impl.do('alloccase %d -1 0' % sc)
            n = int(out.split(' ')[1]) if out.startswith('count ') else 0
            ks = list(range(n)) + [n, n + 5]
            for k in ks:
                impl.do('alloccase %d %d %d' % (sc, k, n))
                expect[len(impl.ops) - 1] = ('handler' if k < n else 'normal-same', sc, k, n)
                stats['c13:scenario%d' % sc] = stats.get('c13:scenario%d' % sc, 0) + 1
            # two failures in one process with a handler that does not return (longjmp, like the C++ API's throw)
            for k in ([0, 1, n // 2, n - 1] if ctx['tier'] == 'quick' else range(n)):
                if 0 <= k < n:
                    impl.do('allocdouble %d %d %d' % (sc, k, n))
                    expect[len(impl.ops) - 1] = ('handler handler', sc, k, n)
                    stats['c13:double%d' % sc] = stats.get('c13:double%d' % sc, 0) + 1
        # hooks under an allocation failure with a non-returning handler: every attached hook released exactly once
        out = impl.do('allochooks -1')
        nh = int(out.split(' ')[1]) if out.startswith('count ') else 0
        for k in range(nh + 2):
            impl.do('allochooks %d' % k)
            expect[len(impl.ops) - 1] = ('hooks ok', 7, k, nh)
            stats['c13:hooks'] = stats.get('c13:hooks', 0) + 1
    def oracle(ops, outs):
        for i, (want, sc, k, n) in expect.items():
            if i < len(outs) and outs[i] != want:
                return i, 'scenario %d: failing allocation %d of %d -> %s (required: %s)' % (sc, k, n, outs[i], want)
        return None
    def proj(op, out):
        return 'count' if out.startswith('count') else out
    correspondence(ctx, [fn], proj, oracle, 'C13 allocation failure handling', 'alloc-faults', driver='drv_alloc.c',
                   extra=('-Wl,--wrap=malloc', '-Wl,--wrap=calloc', '-Wl,--wrap=realloc', '-Wl,--wrap=strdup'),
                   impl_env={'ASAN_OPTIONS': 'detect_leaks=0'})
    ctx['cov']['exhaustive'] = True
    # the C++ half of the property: "std::bad_alloc is thrown by the C++ API" - every k-th allocation requested by the
    # library inside a scenario of C++ calls (several Config objects created and destroyed, reads, adds, assignments,
    # exceptions, writes) fails in turn; each must surface as std::bad_alloc, never as a crash or a normal return
    import props_c17
    quick = ctx['tier'] == 'quick'
    def cpp_fn(impl, rng, stats):
        out = impl.do('cpp badalloc -1 0')
        n = int(out.split(' ')[1]) if out.startswith('count ') else 0
        ks = list(range(n)) if not quick else sorted(set(list(range(min(n, 40))) + [rng.below(max(n, 1)) for _ in range(60)] + [max(n - 1, 0)]))
        for k in ks + [n, n + 7]:
            impl.do('cpp badalloc %d %d' % (k, n))
            stats['c13:cpp:' + ('fail' if k < n else 'none')] = stats.get('c13:cpp:' + ('fail' if k < n else 'none'), 0) + 1
    def cpp_oracle(ops, outs):
        for i, (op, out) in enumerate(zip(ops, outs)):
            w = op.split(' ')
            if len(w) == 4 and w[1] == 'badalloc' and int(w[2]) >= 0:
                k, n = int(w[2]), int(w[3])
                want = 'bad_alloc' if k < n else 'normal-same'
                if out != want:
                    return i, 'failing allocation %d of %d inside C++ calls -> %s (required: %s)' % (k, n, out, want)
        return None
    correspondence(ctx, [cpp_fn], props_c17.proj, cpp_oracle, 'C13 allocation failure handling (C++ API)', 'cpp-alloc-faults', driver='drv_cpp.cc', extra=props_c17.WRAP)

def run_C14(ctx):
    def fn(impl, rng, stats):
        cases = [(2, 3), (4, 3), (8, 4), (16, 2)] if ctx['tier'] == 'quick' else [(2, 20), (4, 20), (8, 20), (16, 10), (16, 30), (3, 50)]
        impl.do('thrcase 8 2 %d 1' % rng.below(1 << 30))     # the very first use of the library is concurrent
        # the writer's rare rendering paths, repeated by all threads at once on their own configurations
        impl.do('thrstress 8 %d' % (1500 if ctx['tier'] == 'quick' else 30000)); stats['c14:stress'] = 1
        impl.do('thrstress 16 %d' % (500 if ctx['tier'] == 'quick' else 10000))
        for nt, rounds in cases:
            for rep in range(2 if ctx['tier'] == 'quick' else 5):
                impl.do('thrcase %d %d %d' % (nt, rounds, rng.below(1 << 30)))
                stats['c14:threads%d' % nt] = stats.get('c14:threads%d' % nt, 0) + 1
    def oracle(ops, outs):
        for i, o in enumerate(outs):
            if not o.startswith('ok '):
                return i, 'a thread obtained results that differ from its serial run: ' + o
        return None
    correspondence(ctx, [fn], lambda op, out: out.split(' ')[0], oracle, 'C14 thread independence', 'threads', driver='drv_thr.c',
                   extra=('-lpthread', '-Wl,--wrap=malloc', '-Wl,--wrap=calloc', '-Wl,--wrap=realloc', '-Wl,--wrap=strdup'), san='-fsanitize=thread',
                   impl_env={'TSAN_OPTIONS': 'halt_on_error=1 exitcode=66'})
    c14_cpp_threads(ctx)

K_CPP_HANDLER = 'C14:cpp-constructor-writes-global-handler'

def c14_cpp_threads(ctx):
    """The C++ part of C14: threads that each construct, use and destroy their own Config objects under TSan; every
    report is collected.  Reports whose racing access is the fatal-error function pointer written by Config::Config()
    are the recorded finding; any other report is a violation."""
    listed = {f['key']: f['what'] for f in vlib.known_findings('C14')}
    exe, log = vlib.build_harness(os.path.join(ctx['work'], 'hcpp'), 'drv_thr_cpp.cc', ('-lpthread',), san='-fsanitize=thread')
    if not exe:
        ctx['violation']('harness-build', 'the C++ thread harness no longer compiles against /repo', {'log': log[-3000:]}, False)
        return
    n_runs = 3 if ctx['tier'] == 'quick' else 25
    sites = {}
    for i in range(n_runs):
        nt = (2, 4, 8, 16)[i % 4]
        r = subprocess.run(['setarch', '-R', exe, str(nt), '15'], capture_output=True, text=True, timeout=600,
                           env=dict(os.environ, TSAN_OPTIONS='halt_on_error=0 exitcode=0 report_signal_unsafe=0'))
        if not r.stdout.startswith('done'):
            ctx['violation']('failing-input', 'C14 thread independence (C++ API): the thread harness died: %s' % (r.stderr[-400:],),
                             {'cmd': 'drv_thr_cpp %d 15' % nt, 'stderr': r.stderr[-3000:]}, True)
            return
        # one block per report; the recorded finding is exactly: both racing accesses are the write in
        # libconfig_set_fatal_error_func reached from the constructor Config::Config()
        for blk in r.stderr.split('=================='):
            m = re.search(r'SUMMARY: ThreadSanitizer: data race (\S+) in (\S+)', blk)
            if not m:
                continue
            callers = set(re.findall(r'#\d+ (libconfig::Config::[^ ]+)', blk))
            fn = m.group(2)
            if fn == 'libconfig_set_fatal_error_func' and callers != {'libconfig::Config::Config()'}:
                fn = 'libconfig_set_fatal_error_func called from ' + ', '.join(sorted(callers))
            sites[(os.path.basename(m.group(1)).split(':')[0], fn)] = blk
    ctx['cov']['cpp_threads'] = {'runs': n_runs, 'race_sites': sorted('%s in %s' % k for k in sites)}
    ctx['cov']['evaluations'] = ctx['cov'].get('evaluations', 0) + n_runs
    for (f, fn), err in sites.items():
        if fn == 'libconfig_set_fatal_error_func' and K_CPP_HANDLER in listed:
            k = K_CPP_HANDLER + ': ' + listed[K_CPP_HANDLER]
            if k not in ctx['known_hits']:
                ctx['known_hits'].append(k)
        else:
            ctx['violation']('failing-input', 'C14 thread independence (C++ API): ThreadSanitizer reports a data race in %s (%s) between threads working on their own Config objects' % (fn, f),
                             {'cmd': 'drv_thr_cpp <threads> 15 under -fsanitize=thread', 'report': err[:3000]}, True)

COMMON_ASSUMPTIONS = [
    'NULL config_t*/config_setting_t*, dangling handles and non-NUL-terminated strings are out of contract',
    'ctype classification is that of the C/UTF-8 locales',
    'glibc printf/strtod/strto* meet their specifications (the executable Lean versions are compared with them on every run)',
]

REGISTRY = {
    'C14': dict(modules=['LibconfigModel.Properties.C14'], run=run_C14, assumptions=COMMON_ASSUMPTIONS + ['the C memory model and races inside libc are outside the model; ThreadSanitizer observes executed paths only', 'config_set_fatal_error_func is not called concurrently (it writes the only mutable static object)']),
    'C13': dict(modules=['LibconfigModel.Properties.CFlow', 'LibconfigModel.Properties.C13'], run=run_C13, assumptions=COMMON_ASSUMPTIONS + ['what the process does after a handler that returns is documented as undefined and not examined', 'allocations inside libc (fopen, newlocale, stdio buffers) are not the library\'s own and are not failed']),
    'C18': dict(modules=['LibconfigModel.Properties.C18', 'LibconfigModel.Properties.Skeleton'], run=run_C18, assumptions=COMMON_ASSUMPTIONS + ['the generic flex matching loop (Flex.lean) is a hand-written model of the skeleton flex emits for every scanner; it is tied by the lex correspondence']),
    'C20': dict(modules=['LibconfigModel.Properties.CFlow', 'LibconfigModel.Properties.C20', 'LibconfigModel.Properties.C20File', 'LibconfigModel.Properties.Skeleton', 'LibconfigModel.Properties.C20Buffer', 'LibconfigModel.Properties.C20Used'], run=run_C20, assumptions=COMMON_ASSUMPTIONS + ['the buffer arithmetic of yy_get_next_buffer is modelled by hand (FlexBuffer.lean), pinned to the generated text by the skeleton hashes and exercised at the 8/16/32 KiB boundaries under ASan; yyrealloc is assumed to succeed']),
    'C15': dict(modules=['LibconfigModel.Properties.CFlow', 'LibconfigModel.Properties.C15', 'LibconfigModel.Properties.C15Threads'], run=run_C15, assumptions=COMMON_ASSUMPTIONS + ['the comma-decimal locale is synthesised from C.utf8 by patching the radix byte of LC_NUMERIC (the sandbox has no other locales)', 'glibc newlocale with a NULL base yields the "C" locale in every category']),
    'C12': dict(modules=['LibconfigModel.Properties.CFlow', 'LibconfigModel.Properties.C12'], run=run_C12, assumptions=COMMON_ASSUMPTIONS + ['stdio reports a failed write(2) through fflush()/ferror(); a successful fclose() means the kernel accepted all data']),
    'C09': dict(modules=['LibconfigModel.Properties.CFlow', 'LibconfigModel.Properties.C09', 'LibconfigModel.Properties.C09Line'], run=run_C09, assumptions=COMMON_ASSUMPTIONS),
    'C08': dict(modules=['LibconfigModel.Properties.C08', 'LibconfigModel.Properties.C08Float'], run=run_C08, assumptions=COMMON_ASSUMPTIONS),
    'C02': dict(modules=['LibconfigModel.Properties.C02', 'LibconfigModel.Properties.C02Complete', 'LibconfigModel.Properties.C02Denote', 'LibconfigModel.Properties.Bridge', 'LibconfigModel.Properties.Skeleton'], run=run_C02, assumptions=COMMON_ASSUMPTIONS),
    'C04': dict(modules=['LibconfigModel.Properties.CFlow', 'LibconfigModel.Properties.CSource', 'LibconfigModel.Properties.C04', 'LibconfigModel.Properties.C04Read', 'LibconfigModel.Properties.Bridge'], run=run_C04, assumptions=COMMON_ASSUMPTIONS),
    'C05': dict(modules=['LibconfigModel.Properties.CFlow', 'LibconfigModel.Properties.CSource', 'LibconfigModel.Properties.C05', 'LibconfigModel.Properties.Bridge'], run=run_C05, assumptions=COMMON_ASSUMPTIONS),
    'C06': dict(modules=['LibconfigModel.Properties.CFlow', 'LibconfigModel.Properties.C06'], run=run_C06, assumptions=COMMON_ASSUMPTIONS),
    'C07': dict(modules=['LibconfigModel.Properties.CSource', 'LibconfigModel.Properties.C07', 'LibconfigModel.Properties.Bridge'], run=run_C07, assumptions=COMMON_ASSUMPTIONS),
    'C16': dict(modules=['LibconfigModel.Properties.CFlow', 'LibconfigModel.Properties.C16'], run=run_C16, assumptions=COMMON_ASSUMPTIONS),
    'C19': dict(modules=['LibconfigModel.Properties.CSource', 'LibconfigModel.Properties.C19', 'LibconfigModel.Properties.Bridge'], run=run_C19, assumptions=COMMON_ASSUMPTIONS),
}

import props_c01
REGISTRY['C01'] = dict(modules=['LibconfigModel.Properties.C01', 'LibconfigModel.Properties.C01Lex', 'LibconfigModel.Properties.C01Parse', 'LibconfigModel.Properties.C01RoundTrip', 'LibconfigModel.Properties.C01Idem', 'LibconfigModel.Properties.Bridge'], run=props_c01.run_C01, assumptions=COMMON_ASSUMPTIONS)

import props_c1011
def run_C10_all(ctx):
    props_c1011.run_C10(ctx)
    # seams inside a line: outside the property's quantifier (files are cut at line boundaries) and outside the
    # hypotheses of C10_splice - the refutation C10_spliceStatement_false lives exactly here - but model and
    # implementation must still agree on what happens: tokens never join across the end of an included file
    def seams(impl, rng, stats):
        cases = [(b'a = 1', b'@include "i"2;\n'), (b'x = tr', b'@include "i"ue;\n'), (b'y = 1; /', b'@include "i"/ z = 2;\nw = 3;\n'),
                 (b's = "ab', b'@include "i"cd";\n'), (b'# comment', b'@include "i" a = 1;\nb = 2;\n'), (b'a = 1;', b'  @include "i" b = 2;\n'),
                 (b'a = [1,', b'@include "i" 2];\n'), (b'', b'@include "i"a = 1;\n'), (b'a = 0x1', b'@include "i"F;\n'), (b'a = 1.', b'@include "i"5;\n')]
        for inc, top in cases:
            impl.do('init'); impl.do('mkfile %s %s' % (hexs(b'i'), hexs(inc))); impl.do('mkfile %s %s' % (hexs(b't'), hexs(top)))
            impl.do('read_file ' + hexs(b't')); impl.do('err'); impl.do('dump')
            stats['c10:seam'] = stats.get('c10:seam', 0) + 1
    correspondence(ctx, [seams], proj_full, None, 'C10 include seams', 'seams')
    # config_set_include_func(cfg, NULL) reinstates the default include function (documented): directives keep working
    def reinstate(impl, rng, stats):
        for pre in ([], ['set_include_fn 1'], ['set_include_fn 1', 'set_include_fn 0', 'set_include_fn 1']):
            impl.do('init'); impl.do('mkfile %s %s' % (hexs(b'inc.cfg'), hexs(b'x = 1;\n')))
            impl.do('mkfile %s %s' % (hexs(b'top.cfg'), hexs(b'@include "inc.cfg"\ny = 2;\n@include "gone.cfg"\n')))
            for o in pre:
                impl.do(o)
            impl.do('set_include_fn 0')
            impl.do('read_file ' + hexs(b'top.cfg')); impl.do('err'); impl.do('dump')
            impl.do('read_string ' + hexs(b'@include "inc.cfg"\n')); impl.do('err'); impl.do('dump')
            stats['c10:reinstate-default-fn'] = stats.get('c10:reinstate-default-fn', 0) + 1
    def oracle_reinstate(ops, outs):
        for i, o in enumerate(ops):
            if o == 'read_string ' + hexs(b'@include "inc.cfg"\n') and i + 2 < len(outs):
                if outs[i].split(' ')[0] != '1' or '(78,' not in outs[i + 2]:
                    return i + 2, 'after config_set_include_func(cfg, NULL) an @include directive no longer includes the file: %s' % outs[i + 2][:200]
            if o == 'read_file ' + hexs(b'top.cfg') and i + 1 < len(outs):
                if outs[i + 1] != '2 %s %s 3' % (b'cannot open include file'.hex(), b'top.cfg'.hex()):
                    return i + 1, 'after config_set_include_func(cfg, NULL) a missing include target is not reported as documented: %s' % outs[i + 1]
        return None
    correspondence(ctx, [reinstate], proj_full, oracle_reinstate, 'C10 default include function', 'reinstate')
    # the default include function joins include directory and relative path whatever their length: joined lengths
    # 251..446 (around 255/256, the limit of ONE path component - not of a path), two directory levels
    def longpaths(impl, rng, stats):
        H = hexs
        d1 = b'd' * 120; d2 = d1 + b'/' + b'e' * 120
        impl.do('init'); impl.do('mkdir ' + H(d1)); impl.do('mkdir ' + H(d2))
        for flen in (5, 8, 9, 10, 11, 50, 200):
            name = b'f' * flen + b'.cfg'
            rel = b'e' * 120 + b'/' + name
            impl.do('mkfile %s %s' % (H(d2 + b'/' + name), H(b'v%d = %d;\n' % (flen, flen))))
            for incdir in (d1,):      # (a trailing '/' would rely on the OS treating '//' as '/': not the library's business)
                impl.do('init'); impl.do('set_include_dir ' + H(incdir))
                impl.do('read_string ' + H(b'a = 1;\n@include "' + rel + b'"\nb = 2;\n')); impl.do('err'); impl.do('dump')
            impl.do('init'); impl.do('read_string ' + H(b'a = 1;\n@include "' + d2 + b'/' + name + b'"\nb = 2;\n')); impl.do('err'); impl.do('dump')
            stats['c10:long-joined-path'] = stats.get('c10:long-joined-path', 0) + 1
    correspondence(ctx, [longpaths], proj_full, None, 'C10 default include function', 'long-paths')

REGISTRY['C10'] = dict(modules=['LibconfigModel.Properties.CFlow', 'LibconfigModel.Properties.C10', 'LibconfigModel.Properties.C10Splice', 'LibconfigModel.Properties.C10SpliceTotal', 'LibconfigModel.Properties.Skeleton', 'LibconfigModel.Properties.C10Prov'], run=run_C10_all, assumptions=COMMON_ASSUMPTIONS)
def run_C11_all(ctx):
    props_c1011.run_C11(ctx)
    c11_ioerr_and_reread(ctx, 'C11 release of files and buffers')

def c11_ioerr_and_reread(ctx, what_label):
    # two faults in one read: an included file whose read fails (treated as its end) and, later, a parse error while still
    # inside an included file - the include stack must be unwound (buffers deleted, streams closed) AND the record must be
    # the I/O error; also the plain cases: read error in the top file of a chain, in the last file, with/without later text
    BAD = b'/proc/self/mem'
    def fn(impl, rng, stats):
        if impl.do('probe_badfile ' + hexs(BAD)) != '1':
            stats['c11:no-unreadable-file-on-this-system'] = 1
            return
        texts = [b'a = 1;\n@include "mid.cfg"\nb = 2;\n', b'@include "mid.cfg"\n', b'g = {\n@include "mid.cfg"\n};\n']
        mids = [b'm = 1;\n@include "/proc/self/mem"\nx = ;\n', b'@include "/proc/self/mem"\nm = (1, 2\n', b'm = 1;\n@include "/proc/self/mem"\nn = 2;\n',
                b'@include "deep.cfg"\nq = = ;\n']
        for mid in mids:
            for t in texts:
                impl.do('init'); impl.do('mkfile %s %s' % (hexs(b'mid.cfg'), hexs(mid)))
                impl.do('mkfile %s %s' % (hexs(b'deep.cfg'), hexs(b'd = 1;\n@include "/proc/self/mem"\ne = [1,\n')))
                impl.do('fdmark'); impl.do('read_string_ioerr %s %s' % (hexs(BAD), hexs(t))); impl.do('err'); impl.do('fdcount'); impl.do('leakcheck'); impl.do('dump')
                stats['c11:io-error-inside-include'] = stats.get('c11:io-error-inside-include', 0) + 1
    def oracle(ops, outs):
        for i, o in enumerate(ops):
            w = first_word(o)
            if w == 'fdcount' and outs[i] != '0':
                return i, 'a read with an I/O error inside an included file returned with %s more open descriptor(s)' % outs[i]
            if w == 'leakcheck' and outs[i] != '0':
                return i, 'a read with an I/O error inside an included file leaked memory (LeakSanitizer)'
            if w == 'err' and i > 0 and first_word(ops[i - 1]) == 'read_string_ioerr' and outs[i] != '1 %s - 0' % b'file I/O error'.hex():
                return i, 'a read during which an included file could not be read left the record %r' % outs[i]
        return None
    correspondence(ctx, [fn], lambda op, out: None if first_word(op) in ('probe_badfile', 'fdmark') else out, oracle,
                   what_label, 'io-error-inside-include')
    # what a read recorded is released by the NEXT call on the same configuration too: first reads that name files but
    # leave the root empty (empty file, comments only, an error or a missing include on line 1, an include of such a
    # file), each followed by every kind of second call; LeakSanitizer is asked right after the second call and after
    # config_destroy
    def reread(impl, rng, stats):
        H = hexs
        firsts = [('read_file', b'r_empty.cfg', b''), ('read_file', b'r_cmt.cfg', b'# only a comment\n/* and\nanother */\n'),
                  ('read_file', b'r_bad1.cfg', b'= ;\n'), ('read_file', b'r_inc1.cfg', b'@include "r_nope.cfg"\n'),
                  ('read_string', None, b'@include "r_cmt.cfg"\n'), ('read_string', None, b'@include "r_nope.cfg"\n'),
                  ('read_file', b'r_incc.cfg', b'@include "r_cmt.cfg"\n# nothing else\n'), ('read_file', b'r_one.cfg', b'a = 1;\n')]
        seconds = ['read_string ' + H(b'a = 1;\n'), 'read_file ' + H(b'r_cmt.cfg'), 'read_string ' + H(b'@include "r_cmt.cfg"\nb = 2;\n'),
                   'read_file ' + H(b'r_missing.cfg'), 'clear', 'read_stream ' + H(b'c = 3;\n')]
        for kind, name, text in firsts:
            for snd in seconds:
                impl.do('init'); impl.do('mkfile %s %s' % (H(b'r_cmt.cfg'), H(b'# only a comment\n')))
                if name:
                    impl.do('mkfile %s %s' % (H(name), H(text)))
                impl.do('fdmark')
                impl.do('%s %s' % (kind, H(name if name else text))); impl.do('dump')
                impl.do(snd); impl.do('fdcount'); impl.do('leakcheck'); impl.do('dump')
                impl.do('destroy'); impl.do('leakcheck')
                stats['c11:second-call-after-empty-root-read'] = stats.get('c11:second-call-after-empty-root-read', 0) + 1
    def oracle_reread(ops, outs):
        for i, o in enumerate(ops):
            if o == 'fdcount' and outs[i] != '0':
                return i, 'two calls on one configuration left %s more open descriptor(s)' % outs[i]
            if o == 'leakcheck' and outs[i] != '0':
                return i, 'memory recorded by an earlier read of the same configuration was never released (LeakSanitizer) after: %s' % ' ; '.join(ops[max(0, i - 6):i])[:300]
        return None
    correspondence(ctx, [reread], lambda op, out: None if first_word(op) == 'fdmark' else out, oracle_reread,
                   what_label, 'second-call')

REGISTRY['C11'] = dict(modules=['LibconfigModel.Properties.CFlow', 'LibconfigModel.Properties.C11', 'LibconfigModel.Properties.Skeleton'], run=run_C11_all, assumptions=COMMON_ASSUMPTIONS)

import props_c17
REGISTRY['C17'] = dict(modules=['LibconfigModel.Properties.C17'], run=props_c17.run_C17, assumptions=COMMON_ASSUMPTIONS)

import props_c03
def run_C03_all(ctx):
    props_c03.run_C03(ctx)
    # two faults in one read (an unreadable included file, then a parse error while still inside an include) and second
    # calls on a configuration whose previous read left only file names: descriptors and LeakSanitizer after each call
    c11_ioerr_and_reread(ctx, 'C03 memory safety of reads')

REGISTRY['C03'] = dict(modules=['LibconfigModel.Properties.CFlow', 'LibconfigModel.Properties.C03', 'LibconfigModel.Properties.C03Term', 'LibconfigModel.Properties.Skeleton', 'LibconfigModel.Properties.C20Buffer', 'LibconfigModel.Properties.C03Stack'], run=run_C03_all, assumptions=COMMON_ASSUMPTIONS + [
    'PARTIAL: memory safety of the C code (flex buffer pointer arithmetic, memmove/realloc, ctype on char) is observed by ASan/UBSan/LSan on the executed paths only — validation, not proof',
    'the containers are modelled as size/index state machines (Containers.lean); that the C functions perform exactly these updates is read off strbuf.c, strvec.c, libconfig.c by hand and exercised under ASan',
    'the generic flex/bison skeleton loops (Flex.lean, Parser.lean) are hand-written models of generated code, tied by the read correspondence; yy_get_next_buffer and the bison stack reallocation are outside the model',
    'sizes that wrap size_t, and allocation failure (C13), are out of scope',
])
