"""Text-level streams: sessions that feed generated configuration texts to the three read entry
points and record results, error information and the resulting tree."""
import os
import gen_text
from vlib import Rng, hexs

ERR_TEXT = {'syntax': b'syntax error'.hex(), 'duplicate': b'duplicate setting name'.hex(),
            'mismatch': b'mismatched element type in array'.hex()}

def sess_c02(part, overrides, expect):
    def fn(impl, rng, stats):
        impl.do('init')
        if overrides:
            impl.do('set_option 128 1')
        for toks, syn in part:
            text, sem, sem_at = gen_text.render_semantic(rng, toks, overrides)
            if b'\x00' in text:
                continue
            op = 'read_string ' + hexs(text)
            out = impl.do(op)
            err = impl.do('err')
            impl.do('dump')
            # first offence: a semantic error at token j always precedes the syntax error that made the
            # sequence invalid (the invalid token is the last one); a syntactically rejected sequence with a
            # semantic error inside reports the semantic one
            if syn == 'invalid' and sem_at == len(toks) - 1:
                sem = None        # the offending token is the syntactically invalid one
            if sem is not None:
                want = ('0', ERR_TEXT[sem])
            elif syn in ('reject', 'invalid'):
                want = ('0', ERR_TEXT['syntax'])
            else:
                want = ('1', None)
            expect[len(impl.ops) - 3] = (want, toks)
            k = 'c02:%s:%s' % (syn, sem or 'ok')
            stats[k] = stats.get(k, 0) + 1
        impl.do('wf')
    return fn

def oracle_c02(expect):
    def oracle(ops, outs):
        for i, (want, toks) in expect.items():
            if i + 1 >= len(outs):
                continue
            got = outs[i].split(' ')[0]
            if got != want[0]:
                return i + 1, 'token sequence %s: read returned %s, the documented grammar says %s' % (' '.join(toks), got, want[0])
            if want[1] is not None:
                e = outs[i + 1].split(' ')
                if e[0] != '2' or e[1] != want[1]:
                    return i + 1, 'token sequence %s: error reported %r, expected parse error %r' % (' '.join(toks), outs[i + 1], bytes.fromhex(want[1]).decode())
            else:
                if outs[i + 1].split(' ')[0] != '0':
                    return i + 1, 'successful read left error type %s' % outs[i + 1].split(' ')[0]
        return None
    return oracle

def sess_texts(texts, entries=('string',), pre=(), post_each=('err', 'dump'), tag='text'):
    """feed each text through the given entry points (same configuration object throughout)"""
    def fn(impl, rng, stats):
        impl.do('init')
        for op in pre:
            impl.do(op)
        for n, text in enumerate(texts):
            for e in entries:
                if e == 'string':
                    if b'\x00' in text:
                        continue
                    out = impl.do('read_string ' + hexs(text))
                elif e == 'stream':
                    out = impl.do('read_stream ' + hexs(text))
                else:
                    impl.do('mkfile %s %s' % (hexs(b'in.cfg'), hexs(text)))
                    out = impl.do('read_file ' + hexs(b'in.cfg'))
                for p in post_each:
                    impl.do(p)
                k = '%s:%s:%s' % (tag, e, out.split(' ')[0])
                stats[k] = stats.get(k, 0) + 1
        impl.do('wf')
    return fn

# ------------------------------------------------------------------ C08: numeric literals

import re, struct

def expected_literal(lit):
    """Independent (Python big-int / correctly rounded float) reading of a numeric literal.
    Returns None for 'must be rejected', else (type, format, value-text-as-in-dump)."""
    s = lit.decode('latin-1')
    m = re.fullmatch(r'0[Xx]([0-9A-Fa-f]+)(L?L?)', s)
    if m:
        v = int(m.group(1), 16)
        if m.group(2):
            if v >= 2**64: return None
            return (3, 1, str(v - 2**64 if v >= 2**63 else v))
        if v >= 2**32: return None
        return (2, 1, str(v - 2**32 if v >= 2**31 else v))
    m = re.fullmatch(r'([-+]?)([0-9]+)(L?L?)', s)
    if m:
        ds = m.group(2)
        if ds[0] == '0':
            if any(c in '89' for c in ds): return None
            v = int(ds, 8)
        else:
            v = int(ds, 10)
        if m.group(1) == '-': v = -v
        if m.group(3):
            return (3, 0, str(v)) if -2**63 <= v < 2**63 else None
        if -2**31 <= v < 2**31: return (2, 0, str(v))
        if -2**63 <= v < 2**63: return (3, 0, str(v))
        return None
    m = re.fullmatch(r'([-+]?)([0-9]*)(?:\.([0-9]*))?(?:[eE]([-+]?[0-9]+))?', s)
    if m and ('.' in s or 'e' in s or 'E' in s):
        ip, fp = m.group(2) or '', m.group(3) or ''
        if not ip and not fp:
            x = 0.0      # atof: no conversion
        else:
            x = float((m.group(1) or '') + (ip or '0') + '.' + (fp or '0') + ('e' + m.group(4) if m.group(4) else ''))
        if x in (float('inf'), float('-inf')): return None
        return (4, 0, '%016x' % struct.unpack('<Q', struct.pack('<d', x))[0])
    return 'not-a-literal'

def sess_c08(lits, expect):
    def fn(impl, rng, stats):
        impl.do('init')
        for lit in lits:
            exp = expected_literal(lit)
            if exp == 'not-a-literal':
                continue
            form = rng.below(3)
            text = [b'a = ' + lit + b';', b'a=' + lit, b'a = [ ' + lit + b' ];'][form]
            out = impl.do('read_string ' + hexs(text))
            impl.do('err')
            impl.do('dump')
            expect[len(impl.ops) - 3] = (exp, lit, form)
            k = 'c08:%s' % ('reject' if exp is None else 'type%d' % exp[0])
            stats[k] = stats.get(k, 0) + 1
    return fn

def oracle_c08(expect):
    def oracle(ops, outs):
        for i, (exp, lit, form) in expect.items():
            if i + 2 >= len(outs):
                continue
            got = outs[i].split(' ')[0]
            if exp is None:
                if got != '0':
                    return i + 2, 'literal %r cannot be represented but the read succeeded: %s' % (lit, outs[i + 2][-120:])
                if outs[i + 1].split(' ')[0] != '2':
                    return i + 1, 'literal %r rejected without a parse error: %s' % (lit, outs[i + 1])
            else:
                if got != '1':
                    return i, 'literal %r (exact value representable) was rejected: %s' % (lit, outs[i + 1])
                want = '(-,%d,%d,%s,' % exp if form == 2 else '(61,%d,%d,%s,' % exp
                if want not in outs[i + 2]:
                    return i + 2, 'literal %r stored as %s, its exact value is %s' % (lit, outs[i + 2][outs[i + 2].find('root='):][:160], want)
        return None
    return oracle
