"""Text-level streams: sessions that feed generated configuration texts to the three read entry
points and record results, error information and the resulting tree."""
import os
import gen_text
from vlib import Rng, hexs

ERR_TEXT = {'syntax': b'syntax error'.hex(), 'duplicate': b'duplicate setting name'.hex(),
            'mismatch': b'mismatched element type in array'.hex()}

def sess_c02(part, overrides, expect):
    def fn(impl, rng, stats):
        impl.do('init')
        if overrides:
            impl.do('set_option 128 1')
        for toks, syn in part:
            text, sem, sem_at = gen_text.render_semantic(rng, toks, overrides)
            if b'\x00' in text:
                continue
            op = 'read_string ' + hexs(text)
            out = impl.do(op)
            err = impl.do('err')
            impl.do('dump')
            # first offence: a semantic error at token j always precedes the syntax error that made the
            # sequence invalid (the invalid token is the last one); a syntactically rejected sequence with a
            # semantic error inside reports the semantic one
            if syn == 'invalid' and sem_at == len(toks) - 1:
                sem = None        # the offending token is the syntactically invalid one
            if sem is not None:
                want = ('0', ERR_TEXT[sem])
            elif syn in ('reject', 'invalid'):
                want = ('0', ERR_TEXT['syntax'])
            else:
                want = ('1', None)
            expect[len(impl.ops) - 3] = (want, toks)
            k = 'c02:%s:%s' % (syn, sem or 'ok')
            stats[k] = stats.get(k, 0) + 1
        impl.do('wf')
    return fn

def oracle_c02(expect):
    def oracle(ops, outs):
        for i, (want, toks) in expect.items():
            if i + 1 >= len(outs):
                continue
            got = outs[i].split(' ')[0]
            if got != want[0]:
                return i + 1, 'token sequence %s: read returned %s, the documented grammar says %s' % (' '.join(toks), got, want[0])
            if want[1] is not None:
                e = outs[i + 1].split(' ')
                if e[0] != '2' or e[1] != want[1]:
                    return i + 1, 'token sequence %s: error reported %r, expected parse error %r' % (' '.join(toks), outs[i + 1], bytes.fromhex(want[1]).decode())
            else:
                if outs[i + 1].split(' ')[0] != '0':
                    return i + 1, 'successful read left error type %s' % outs[i + 1].split(' ')[0]
        return None
    return oracle

def sess_texts(texts, entries=('string',), pre=(), post_each=('err', 'dump'), tag='text'):
    """feed each text through the given entry points (same configuration object throughout)"""
    def fn(impl, rng, stats):
        impl.do('init')
        for op in pre:
            impl.do(op)
        for n, text in enumerate(texts):
            for e in entries:
                if e == 'string':
                    if b'\x00' in text:
                        continue
                    out = impl.do('read_string ' + hexs(text))
                elif e == 'stream':
                    out = impl.do('read_stream ' + hexs(text))
                else:
                    impl.do('mkfile %s %s' % (hexs(b'in.cfg'), hexs(text)))
                    out = impl.do('read_file ' + hexs(b'in.cfg'))
                for p in post_each:
                    impl.do(p)
                k = '%s:%s:%s' % (tag, e, out.split(' ')[0])
                stats[k] = stats.get(k, 0) + 1
        impl.do('wf')
    return fn

# ------------------------------------------------------------------ C08: numeric literals

import re, struct

def expected_literal(lit):
    """Independent (Python big-int / correctly rounded float) reading of a numeric literal.
    Returns None for 'must be rejected', else (type, format, value-text-as-in-dump)."""
    s = lit.decode('latin-1')
    m = re.fullmatch(r'0[Xx]([0-9A-Fa-f]+)(L?L?)', s)
    if m:
        v = int(m.group(1), 16)
        if m.group(2):
            if v >= 2**64: return None
            return (3, 1, str(v - 2**64 if v >= 2**63 else v))
        if v >= 2**32: return None
        return (2, 1, str(v - 2**32 if v >= 2**31 else v))
    m = re.fullmatch(r'([-+]?)([0-9]+)(L?L?)', s)
    if m:
        ds = m.group(2)
        if ds[0] == '0':
            if any(c in '89' for c in ds): return None
            v = int(ds, 8)
        else:
            v = int(ds, 10)
        if m.group(1) == '-': v = -v
        if m.group(3):
            return (3, 0, str(v)) if -2**63 <= v < 2**63 else None
        if -2**31 <= v < 2**31: return (2, 0, str(v))
        if -2**63 <= v < 2**63: return (3, 0, str(v))
        return None
    m = re.fullmatch(r'([-+]?)([0-9]*)(?:\.([0-9]*))?(?:[eE]([-+]?[0-9]+))?', s)
    if m and ('.' in s or 'e' in s or 'E' in s):
        ip, fp = m.group(2) or '', m.group(3) or ''
        if not ip and not fp:
            x = 0.0      # atof: no conversion
        else:
            x = float((m.group(1) or '') + (ip or '0') + '.' + (fp or '0') + ('e' + m.group(4) if m.group(4) else ''))
        if x in (float('inf'), float('-inf')): return None
        return (4, 0, '%016x' % struct.unpack('<Q', struct.pack('<d', x))[0])
    return 'not-a-literal'

def sess_c08(lits, expect):
    def fn(impl, rng, stats):
        impl.do('init')
        for lit in lits:
            exp = expected_literal(lit)
            if exp == 'not-a-literal':
                continue
            form = rng.below(4)
            if form == 3:
                # the literal REDEFINES a member that an earlier literal of another kind defined (overrides allowed):
                # the setting takes type, format and value of the last literal
                first = rng.choice([b'1', b'5000000000', b'2.5', b'0x10', b'0x10L', b'"s"', b'true', b'-7L', b'1e300'])
                text = b'a = ' + first + b';\nb = 0;\na = ' + lit + b';'
                impl.do('set_option 128 1')
            else:
                text = [b'a = ' + lit + b';', b'a=' + lit, b'a = [ ' + lit + b' ];'][form]
            out = impl.do('read_string ' + hexs(text))
            impl.do('err')
            impl.do('dump')
            expect[len(impl.ops) - 3] = (exp, lit, form)
            if form == 3:
                impl.do('set_option 128 0')
            k = 'c08:%s' % ('reject' if exp is None else 'type%d' % exp[0])
            stats[k] = stats.get(k, 0) + 1
    return fn

def oracle_c08(expect):
    def oracle(ops, outs):
        for i, (exp, lit, form) in expect.items():
            if i + 2 >= len(outs):
                continue
            got = outs[i].split(' ')[0]
            if exp is None:
                if got != '0':
                    return i + 2, 'literal %r cannot be represented but the read succeeded: %s' % (lit, outs[i + 2][-120:])
                if outs[i + 1].split(' ')[0] != '2':
                    return i + 1, 'literal %r rejected without a parse error: %s' % (lit, outs[i + 1])
            else:
                if got != '1':
                    return i, 'literal %r (exact value representable) was rejected: %s' % (lit, outs[i + 1])
                want = '(-,%d,%d,%s,' % exp if form == 2 else '(61,%d,%d,%s,' % exp
                if form == 3 and outs[i + 2].count('(61,') != 1:
                    return i + 2, 'literal %r redefining a member: the member exists %d times: %s' % (lit, outs[i + 2].count('(61,'), outs[i + 2][outs[i + 2].find('root='):][:200])
                if want not in outs[i + 2]:
                    return i + 2, 'literal %r stored as %s, its exact value is %s' % (lit, outs[i + 2][outs[i + 2].find('root='):][:160], want)
        return None
    return oracle

# ------------------------------------------------------------------ C09: error information is history independent

def c09_events():
    """(name, setup ops, op, expected err line in isolation) — expectations are known by construction,
    independently of the library and of the model"""
    H = lambda b: hexs(b)
    syn = lambda t, f, l: '2 %s %s %d' % (b'syntax error'.hex(), f, l)
    ev = []
    ev.append(('ok-string', [], 'read_string ' + H(b'a = 1;\nb = 2;'), '0 - - 0'))
    ev.append(('syntax-string-l2', [], 'read_string ' + H(b'a = 1;\nb = ;'), syn(0, '-', 2)))
    ev.append(('syntax-string-l4', [], 'read_string ' + H(b'a = 1;\n\n\nb = = ;'), syn(0, '-', 4)))
    ev.append(('dup-string-l3', [], 'read_string ' + H(b'a = 1;\nb = 2;\na = 3;'), '2 %s - 3' % b'duplicate setting name'.hex()))
    ev.append(('mismatch-stream-l2', [], 'read_stream ' + H(b'a = [1,\n2.5];'), '2 %s - 2' % b'mismatched element type in array'.hex()))
    ev.append(('ok-file', ['mkfile %s %s' % (H(b'ok.cfg'), H(b'x = 1;\n'))], 'read_file ' + H(b'ok.cfg'), '0 - - 0'))
    ev.append(('syntax-file-l3', ['mkfile %s %s' % (H(b'bad.cfg'), H(b'x = 1;\ny = 2;\nz = ;\n'))], 'read_file ' + H(b'bad.cfg'),
               '2 %s %s 3' % (b'syntax error'.hex(), b'bad.cfg'.hex())))
    ev.append(('syntax-in-include-l2', ['mkfile %s %s' % (H(b'inc.cfg'), H(b'p = 1;\nq = ;\n')),
                                        'mkfile %s %s' % (H(b'top.cfg'), H(b'a = 1;\n@include "inc.cfg"\nb = 2;\n'))],
               'read_file ' + H(b'top.cfg'), '2 %s %s 2' % (b'syntax error'.hex(), b'inc.cfg'.hex())))
    ev.append(('missing-include-string-l2', [], 'read_string ' + H(b'a = 1;\n@include "nonexistent.cfg"\n'),
               '2 %s - 2' % b'cannot open include file'.hex()))
    ev.append(('missing-file', [], 'read_file ' + H(b'nofile.cfg'), '1 %s - 0' % b'file I/O error'.hex()))
    ev.append(('directory', ['mkdir ' + H(b'adir')], 'read_file ' + H(b'adir'), '1 %s - 0' % b'file I/O error'.hex()))
    ev.append(('write-ok', [], 'write_file ' + H(b'out.cfg'), '0 - - 0'))
    ev.append(('write-ok-fsync', ['set_option 64 1'], 'write_file ' + H(b'out2.cfg'), '0 - - 0'))     # the fsync path of config_write_file
    ev.append(('write-fail-nodir', [], 'write_file ' + H(b'nodir/out.cfg'), '1 %s - 0' % b'file I/O error'.hex()))
    ev.append(('write-fail-isdir', ['mkdir ' + H(b'adir')], 'write_file ' + H(b'adir'), '1 %s - 0' % b'file I/O error'.hex()))
    return ev

def sess_c09(seqs, events, expect):
    def fn(impl, rng, stats):
        for seq in seqs:
            impl.do('init')
            for e in seq:
                name, setup, op, want = events[e]
                for s in setup:
                    impl.do(s)
                impl.do(op)
                impl.do('err')
                expect[len(impl.ops) - 1] = (want, [events[x][0] for x in seq])
                stats['c09:' + name] = stats.get('c09:' + name, 0) + 1
    return fn

def oracle_c09(expect):
    def oracle(ops, outs):
        for i, (want, hist) in expect.items():
            if i < len(outs) and outs[i] != want:
                return i, 'after the history %s the error information is %r; this call in isolation reports %r' % (' -> '.join(hist), outs[i], want)
        return None
    return oracle

# ------------------------------------------------------------------ C20: entry points and buffer boundaries

PROBES = [b'name-with_long*identifier = 1;', b'v = 2147483647;', b'v = -9223372036854775807L;', b'v = 0xDEADBEEFL;', b'v = 1.7976931348623157e308;',
          b's = "' + b'z' * 40 + b'";', b's = "a\\n\\t\\x41\\\\\\"b";', b's = "p" /* c */ "q" // d\n "r";', b'/* block\ncomment */ v = 1;',
          b'# hash comment\nv = true;', b'l = ( 1, [ 2, 3 ], { a = "x"; } );', b'v = = ;', b'v = [1, "x"];', b'v = 1; v = 2;', b's = "unterminated',
          b'/* unterminated', b'\n@include "c20inc.cfg"\nw = 5;', b'v = 089;', b's = "\\q\\x4";']

def c20_texts(rng, tier):
    bounds = [8192, 16384] + ([32768] if tier == 'thorough' else [])
    offs = list(range(-14, 6)) if tier == 'thorough' else [-9, -5, -3, -2, -1, 0, 1, 2]
    out = []
    for B in bounds:
        for pi, probe in enumerate(PROBES):
            for d in (offs if tier == 'thorough' else [rng.choice(offs) for _ in range(3)]):
                target = B + d
                lines = []
                n = 0
                i = 0
                while n < target - 40:
                    l = b'k%05d = %d;\n' % (i, i * 7)
                    lines.append(l); n += len(l); i += 1
                pad = target - n
                lines.append(b'#' + b'.' * max(pad - 2, 0) + b'\n' if pad >= 2 else b' ' * pad)
                out.append(b''.join(lines) + probe + b'\ntail = 1;\n')
    # multi-byte sequences whose two halves may land in different refills (CR LF inside a string, in white space and in an
    # include path; an escape; a two-character comment opener): EVERY offset across the first boundary, in both tiers
    pairs = [b's = "ab\r\ncd";', b'v = 1;\r\nw = 2;\r\n', b's = "a\\nb\\x41";', b'/* c */ v = 1; // d\r\n', b'@include "c20inc.cfg"\r\n']
    for probe in pairs:
        for d in range(-12, 4):
            target = 8192 + d
            lines = []
            n = 0
            i = 0
            while n < target - 40:
                l = b'k%05d = %d;\n' % (i, i * 7)
                lines.append(l); n += len(l); i += 1
            pad = target - n
            lines.append(b'#' + b'.' * max(pad - 2, 0) + b'\n' if pad >= 2 else b' ' * pad)
            out.append(b''.join(lines) + probe + b'\ntail = 1;\n')
    # single tokens that fill the scanner buffer exactly (string body, run of blanks, comment, name)
    for n in ([16380, 16381, 16382, 16383, 16384, 16385, 16386, 32766, 32767, 32768] if tier == 'thorough' else [16382, 16383, 16384, 32767]):
        out.append(b'a = 1;\ns = "' + b'q' * n + b'";\nb = 2;\n')
        out.append(b'a = 1;\n' + b' ' * n + b'b = 2;\n')
    for n in (16383, 16384):
        out.append(b'a = 1; /*' + b'c' * n + b'*/ b = 2;\n')
        out.append(b'n' * n + b' = 1;\n')
    return out

def sess_c20(texts, groups):
    def fn(impl, rng, stats):
        impl.do('init')
        impl.do('mkfile %s %s' % (hexs(b'c20inc.cfg'), hexs(b'inc = 1;\n')))
        for text in texts:
            idx = []
            for e in ('string', 'stream', 'chunked', 'eintr', 'file', 'fifo'):
                # every entry point starts from the same used state: a configuration holding the tree and the error record
                # of an earlier, different, failing read ("same result" includes not inheriting anything from it)
                impl.do('read_string ' + hexs(b'left = "over";\nstale = ;\n'))
                if e == 'eintr':
                    # the delivery is interrupted by a signal once, at the 1st..4th read call, in pieces of 7 / 4096 / unlimited bytes
                    impl.do('read_eintr %d %d %s' % (rng.choice([7, 7, 4096, 0]), rng.range(1, 4), hexs(text)))
                elif e == 'string':
                    impl.do('read_string ' + hexs(text))
                elif e == 'stream':
                    impl.do('read_stream ' + hexs(text))
                elif e == 'chunked':
                    impl.do('read_chunked %d %s' % (rng.choice([1, 7, 4095, 4096, 8191, 8192, 8193, rng.range(1, 9000)]), hexs(text)))
                elif e == 'fifo':
                    # config_read_file on something that is not a regular file: a FIFO of the same name delivering the bytes
                    impl.do('read_fifo ' + hexs(text))
                else:
                    impl.do('mkfile %s %s' % (hexs(b'in.cfg'), hexs(text)))
                    impl.do('read_file ' + hexs(b'in.cfg'))
                impl.do('err'); impl.do('dump')
                idx.append(len(impl.ops) - 3)
                stats['c20:' + e] = stats.get('c20:' + e, 0) + 1
            groups.append(idx)
    return fn

import re as _re
def _nofile(dump):
    d = dump[dump.find('root='):]
    return _re.sub(r',[0-9a-f=\-]+\)', ')', d)

def oracle_c20(groups):
    def oracle(ops, outs):
        for g in groups:
            if g[-1] + 2 >= len(outs):
                continue
            res = [(outs[i].split(' ')[0], ' '.join(outs[i + 1].split(' ')[:2]), outs[i + 1].split(' ')[-1], _nofile(outs[i + 2])) for i in g]
            for j in range(1, len(res)):
                if res[j] != res[0]:
                    what = ['result', 'error type/text', 'error line', 'configuration'][[a != b for a, b in zip(res[j], res[0])].index(True)]
                    return g[j] + 2, 'the %s differs between read_string and %s for the same %d bytes' % (what, ops[g[j]].split(' ')[0], (len(ops[g[0]]) - 12) // 2)
        return None
    return oracle

# ------------------------------------------------------------------ C18: documented token definitions as an independent tokenizer

import re as _r
_CI = lambda w: b''.join(b'[' + bytes([c]).upper() + bytes([c]).lower() + b']' for c in w)
_INITIAL = [
    (1, _r.compile(rb'#|//'), 'SLC'), (4, _r.compile(rb'/\*'), 'MLC'), (8, _r.compile(rb'"'), 'STRING'),
    (22, _r.compile(rb'[ \t]*@include[ \t]+"'), 'INCLUDE-BOL'),
    (28, _r.compile(rb'[\n\r\f\a\b\v]'), None), (29, _r.compile(rb'[ \t]+'), None),
    (30, _r.compile(rb'=|:'), 266), (31, _r.compile(rb','), 272), (32, _r.compile(rb'\{'), 273), (33, _r.compile(rb'\}'), 274),
    (34, _r.compile(_CI(b'true')), 258), (35, _r.compile(_CI(b'false')), 258),
    (36, _r.compile(rb'[A-Za-z*][-A-Za-z0-9_*]*'), 265),
    (37, _r.compile(rb'[-+]?[0-9]*\.[0-9]*(?:[eE][-+]?[0-9]+)?'), 263), (37, _r.compile(rb'[-+]?[0-9]+(?:\.[0-9]*)?[eE][-+]?[0-9]+'), 263),
    (38, _r.compile(rb'[-+]?[0-9]+'), 'INT'), (39, _r.compile(rb'[-+]?[0-9]+LL?'), 'INT64'),
    (40, _r.compile(rb'0[Xx][0-9A-Fa-f]+'), 'HEX'), (41, _r.compile(rb'0[Xx][0-9A-Fa-f]+LL?'), 'HEX64'),
    (42, _r.compile(rb'\['), 268), (43, _r.compile(rb'\]'), 269), (44, _r.compile(rb'\('), 270), (45, _r.compile(rb'\)'), 271),
    (46, _r.compile(rb';'), 275), (47, _r.compile(rb'.'), 276)]
_ESC = {b'a': 7, b'b': 8, b'n': 10, b'r': 13, b't': 9, b'v': 11, b'f': 12, b'\\': 92, b'"': 34}
_STRING = [(9, _r.compile(rb'[^"\\]+'), 'run')] + [(10 + i, _r.compile(b'\\\\' + _r.escape(k)), v) for i, (k, v) in enumerate(_ESC.items())] + \
          [(19, _r.compile(rb'\\[Xx][0-9A-Fa-f]{2}'), 'hex'), (20, _r.compile(rb'\\'), 92), (21, _r.compile(rb'"'), 'end')]
_INCLUDE = [(23, _r.compile(rb'[^"\\]+'), 'run'), (24, _r.compile(rb'\\\\'), 92), (25, _r.compile(rb'\\"'), 34), (26, _r.compile(rb'\\'), 92), (27, _r.compile(rb'"'), 'end')]
_SLC = [(2, _r.compile(rb'\n'), 'INITIAL'), (3, _r.compile(rb'.'), None)]
_MLC = [(5, _r.compile(rb'\*/'), 'INITIAL'), (6, _r.compile(rb'.'), None), (7, _r.compile(rb'\n'), None)]

def _numeric_token(kind, lex):
    exp = expected_literal(lex)
    if exp is None or exp == 'not-a-literal':
        return 277
    return {2: {0: 259, 1: 260}, 3: {0: 261, 1: 262}}[exp[0]][exp[1]]

def spec_lex(text):
    """token stream the documented definitions prescribe: longest match, earliest rule on ties.
    Numeric values and line numbers are left to C08 / the model correspondence."""
    out = []
    pos = 0; mode = 'INITIAL'; bol = True; acc = b''
    n = len(text)
    guard = 0
    while pos < n and guard < 200000:
        guard += 1
        rules = {'INITIAL': _INITIAL, 'STRING': _STRING, 'INCLUDE': _INCLUDE, 'SLC': _SLC, 'MLC': _MLC}[mode]
        best = None
        for num, rx, act in rules:
            if act == 'INCLUDE-BOL' and not bol:
                continue
            m = rx.match(text, pos)
            if m and m.end() > pos and (best is None or m.end() - pos > best[0]):
                best = (m.end() - pos, num, act)
        if best is None:
            out.append('NO-RULE'); break
        ln, num, act = best
        lex = text[pos:pos + ln]
        pos += ln
        bol = lex.endswith(b'\n')
        if mode == 'INITIAL':
            if act in ('SLC', 'MLC', 'STRING'):
                mode = act
            elif act == 'INCLUDE-BOL':
                mode = 'INCLUDE'
            elif act is None:
                pass
            elif act in ('INT', 'INT64', 'HEX', 'HEX64'):
                out.append(str(_numeric_token(act, lex)))
            elif act == 263:
                out.append('263' if expected_literal(lex) is not None else '277')
            elif act == 265:
                out.append('265:' + hexs(lex))
            else:
                out.append(str(act))
        elif mode in ('SLC', 'MLC'):
            if act == 'INITIAL':
                mode = 'INITIAL'
        else:
            if act == 'run':
                acc += lex.split(b'\x00')[0] if b'\x00' in lex else lex
                if b'\x00' in lex:
                    acc += b'\x00'      # the C string ends here: later appends are invisible
            elif act == 'hex':
                acc += bytes([int(lex[2:], 16)])
            elif act == 'end':
                val = acc.split(b'\x00')[0]
                acc = b''
                if mode == 'STRING':
                    out.append('264:' + hexs(val)); mode = 'INITIAL'
                else:
                    out.append('277')            # no such file: "cannot open include file"; the mode stays INCLUDE
            else:
                acc += bytes([act])
    out.append('eof')
    return out

def norm_lex(line):
    toks = []
    for t in line.split(' '):
        t = _r.sub(r'@\d+$', '', t)
        m = _r.match(r'(\d+):(.*)', t)
        if m and m.group(1) in ('258', '259', '260', '261', '262', '263'):
            t = m.group(1)
        toks.append(t)
    return toks

def sess_c18(texts, expect):
    def fn(impl, rng, stats):
        impl.do('init')
        for t in texts:
            if b'\x00' in t:
                continue
            impl.do('lex ' + hexs(t))
            expect[len(impl.ops) - 1] = t
            stats['c18:lex'] = stats.get('c18:lex', 0) + 1
    return fn

def oracle_c18(expect):
    def oracle(ops, outs):
        for i, t in expect.items():
            if i >= len(outs):
                continue
            want = spec_lex(t)
            got = norm_lex(outs[i])
            if got != want:
                k = next((j for j, (a, b) in enumerate(zip(got, want)) if a != b), min(len(got), len(want)))
                return i, 'tokenization of %r deviates from the documented token definitions at token %d: got %s, documented %s' % (
                    t[:80], k, got[k:k + 3], want[k:k + 3])
        return None
    return oracle

C18_FRAG = [b'true', b'TRUE', b'truex', b'false', b'fAlSe0', b'name', b'a-b_c*', b'*', b'1', b'-1', b'+05', b'1L', b'1LL', b'1LLL', b'0x1F', b'0X1fL', b'0x', b'0xG',
            b'1.5', b'.5', b'5.', b'.', b'1e5', b'1e', b'1e+', b'1.e5', b'-.5e-3', b'1.5L', b'"s"', b'"a\\n\\x41\\q\\""', b'"', b'"\\', b'""', b'=', b':', b',', b';', b'{', b'}',
            b'[', b']', b'(', b')', b'#c', b'//c', b'/*c*/', b'/*', b'*/', b'/', b'\n', b' ', b'\t', b'\r', b'\f', b'\a', b'\b', b'\v', b'@', b'@include "', b'\n@include "x"',
            b'\n  @include\t"', b'\\', b'-', b'+', b'_', b'\x01', b'\x7f', b'\x80', b'\xff', b'e', b'L', b'x', b'0', b'00', b'08', b'9223372036854775808', b'0xFFFFFFFFF',
            b'"\\a\\b\\v\\f\\t\\r"', b'"\\x4"', b'"\\xgg"', b'"\\X41"',
            # multi-byte sequences editors and platforms produce (byte-order marks, CR LF, NEL, NBSP): they begin no token
            b'\xef\xbb\xbf', b'\n\xef\xbb\xbf', b'\xef\xbb', b'\xbb\xbf', b'\xfe\xff', b'\xff\xfe', b'\r\n', b'\n\r', b'\xc2\x85', b'\xc2\xa0',
            b'\xe2\x80\xa8', b'"\r\n"', b'\x1a']

def c18_texts(rng, n):
    out = []
    for _ in range(n):
        k = rng.weighted([(1, 2), (2, 4), (3, 4), (5, 3), (10, 2), (30, 1)])
        mode = rng.below(4)
        if mode == 0:
            t = b''.join(rng.choice(C18_FRAG) for _ in range(k))
        elif mode == 1:
            t = b' '.join(rng.choice(C18_FRAG) for _ in range(k))
        elif mode == 2:
            t = bytes(rng.range(1, 255) for _ in range(k * 2))
        else:
            t = gen_text.mutate(rng, gen_text.rand_valid_text(rng))
        out.append(t)
    return out
