"""Text-level streams: sessions that feed generated configuration texts to the three read entry
points and record results, error information and the resulting tree."""
import os
import gen_text
from vlib import Rng, hexs

ERR_TEXT = {'syntax': b'syntax error'.hex(), 'duplicate': b'duplicate setting name'.hex(),
            'mismatch': b'mismatched element type in array'.hex()}

def sess_c02(part, overrides, expect):
    def fn(impl, rng, stats):
        impl.do('init')
        if overrides:
            impl.do('set_option 128 1')
        for toks, syn in part:
            text, sem, sem_at = gen_text.render_semantic(rng, toks, overrides)
            if b'\x00' in text:
                continue
            op = 'read_string ' + hexs(text)
            out = impl.do(op)
            err = impl.do('err')
            impl.do('dump')
            # first offence: a semantic error at token j always precedes the syntax error that made the
            # sequence invalid (the invalid token is the last one); a syntactically rejected sequence with a
            # semantic error inside reports the semantic one
            if syn == 'invalid' and sem_at == len(toks) - 1:
                sem = None        # the offending token is the syntactically invalid one
            if sem is not None:
                want = ('0', ERR_TEXT[sem])
            elif syn in ('reject', 'invalid'):
                want = ('0', ERR_TEXT['syntax'])
            else:
                want = ('1', None)
            expect[len(impl.ops) - 3] = (want, toks)
            k = 'c02:%s:%s' % (syn, sem or 'ok')
            stats[k] = stats.get(k, 0) + 1
        impl.do('wf')
    return fn

def oracle_c02(expect):
    def oracle(ops, outs):
        for i, (want, toks) in expect.items():
            if i + 1 >= len(outs):
                continue
            got = outs[i].split(' ')[0]
            if got != want[0]:
                return i + 1, 'token sequence %s: read returned %s, the documented grammar says %s' % (' '.join(toks), got, want[0])
            if want[1] is not None:
                e = outs[i + 1].split(' ')
                if e[0] != '2' or e[1] != want[1]:
                    return i + 1, 'token sequence %s: error reported %r, expected parse error %r' % (' '.join(toks), outs[i + 1], bytes.fromhex(want[1]).decode())
            else:
                if outs[i + 1].split(' ')[0] != '0':
                    return i + 1, 'successful read left error type %s' % outs[i + 1].split(' ')[0]
        return None
    return oracle

def sess_texts(texts, entries=('string',), pre=(), post_each=('err', 'dump'), tag='text'):
    """feed each text through the given entry points (same configuration object throughout)"""
    def fn(impl, rng, stats):
        impl.do('init')
        for op in pre:
            impl.do(op)
        for n, text in enumerate(texts):
            for e in entries:
                if e == 'string':
                    if b'\x00' in text:
                        continue
                    out = impl.do('read_string ' + hexs(text))
                elif e == 'stream':
                    out = impl.do('read_stream ' + hexs(text))
                else:
                    impl.do('mkfile %s %s' % (hexs(b'in.cfg'), hexs(text)))
                    out = impl.do('read_file ' + hexs(b'in.cfg'))
                for p in post_each:
                    impl.do(p)
                k = '%s:%s:%s' % (tag, e, out.split(' ')[0])
                stats[k] = stats.get(k, 0) + 1
        impl.do('wf')
    return fn
