#!/usr/bin/env python3
"""Translate the bodies of the scalar accessors of lib/libconfig.c into constructor literals of
LibconfigModel.CSrc.Expr / Stmt  (Generated/CSource.lean).

The source is read through clang's typed JSON AST (macros expanded, implicit conversions explicit).  The
translator interprets nothing: every AST node maps to one constructor or, if there is none for it, to `.bad`
(which the semantics of CSrc.lean executes as `stuck`, so every theorem about that function breaks).
Called from translate.py; can be run alone:  python3 tools/ctranslate.py  (prints a JSON summary)."""
import json, os, subprocess, sys

VERIF = os.path.dirname(os.path.dirname(os.path.abspath(__file__)))
REPO = os.environ.get('VERIF_REPO', '/repo')

# function -> which pointer parameter is THE setting / THE configuration of the state
FUNCS = [
    '__config_setting_get_int', '__config_setting_get_int64', '__config_setting_get_float',
    'config_setting_set_int', 'config_setting_set_int64', 'config_setting_set_float',
    'config_setting_get_bool', 'config_setting_set_bool',
    'config_setting_set_format', 'config_setting_get_format',
    'config_setting_is_scalar', 'config_setting_is_aggregate', '__config_type_is_scalar',
    'config_get_option', 'config_set_option', 'config_set_options', 'config_get_options',
    'config_set_tab_width', 'config_get_tab_width',
    'config_set_float_precision', 'config_get_float_precision',
    '__config_list_checktype', 'config_setting_length',
]

TY = {'int': '.i32', 'long long': '.i64', 'unsigned short': '.u16', 'short': '.i16', 'unsigned int': '.u32',
      'double': '.f64'}
BIN = {'+': '.add', '-': '.sub', '*': '.mul', '&': '.band', '|': '.bor', '==': '.eq', '!=': '.ne', '<': '.lt',
       '<=': '.le', '>': '.gt', '>=': '.ge', '&&': '.land', '||': '.lor'}
UN = {'-': '.neg', '!': '.lnot', '~': '.bnot'}
CAST = {'IntegralCast': '.integral', 'FloatingToIntegral': '.floatToInt', 'IntegralToFloating': '.intToFloat',
        'IntegralToBoolean': '.toBool', 'NoOp': '.noop'}
SF = {'type': '.type', 'format': '.format'}
VF = {'ival': '.ival', 'llval': '.llval', 'fval': '.fval'}
CF = {'options': '.options', 'default_format': '.defaultFormat', 'tab_width': '.tabWidth',
      'float_precision': '.floatPrecision'}
CALLS = {'config_get_option': '.getOption', '__config_type_is_scalar': '.typeIsScalar'}


def ty(node):
    q = node.get('type', {}).get('qualType', '')
    q = q.replace('const ', '').replace('volatile ', '').strip()
    return TY.get(q, '.other')


def strip(n):
    while n.get('kind') in ('ParenExpr', 'ConstantExpr'):
        n = n['inner'][0]
    return n


class Fn:
    def __init__(self, decl):
        self.ids = {}
        self.ptr = {}
        self.bad = []
        for p in decl.get('inner', []):
            if p.get('kind') == 'ParmVarDecl':
                self.ids[p['name']] = len(self.ids)
                q = p['type']['qualType']
                if 'config_setting_t *' in q:
                    self.ptr[p['name']] = 'setting'
                elif 'config_t *' in q:
                    self.ptr[p['name']] = 'config'
                elif q.endswith('*'):
                    self.ptr[p['name']] = 'out'
        self.nparams = len(self.ids)

    def note(self, what):
        self.bad.append(what)
        return '.bad'

    # what object does a pointer-valued expression denote?
    def obj(self, n):
        n = strip(n)
        if n.get('kind') == 'ImplicitCastExpr' and n.get('castKind') in ('LValueToRValue', 'NoOp'):
            return self.obj(n['inner'][0])
        if n.get('kind') == 'DeclRefExpr':
            return self.ptr.get(n['referencedDecl']['name'])
        if n.get('kind') == 'MemberExpr' and n.get('name') == 'config' and n.get('isArrow'):
            return 'config' if self.obj(n['inner'][0]) == 'setting' else None
        return None

    # `setting->value.list` as an lvalue / as the pointer value read from it
    def is_list_lv(self, n):
        n = strip(n)
        if n.get('kind') != 'MemberExpr' or n.get('name') != 'list' or n.get('isArrow'):
            return False
        b = strip(n['inner'][0])
        return (b.get('kind') == 'MemberExpr' and b.get('name') == 'value' and b.get('isArrow')
                and self.obj(b['inner'][0]) == 'setting')

    def is_list_rv(self, n):
        n = strip(n)
        return (n.get('kind') == 'ImplicitCastExpr' and n.get('castKind') == 'LValueToRValue'
                and self.is_list_lv(n['inner'][0]))

    # `setting->value.list->elements[<literal k>]` read as a pointer: k
    def elem_index(self, n):
        n = strip(n)
        if not (n.get('kind') == 'ImplicitCastExpr' and n.get('castKind') == 'LValueToRValue'):
            return None
        a = strip(n['inner'][0])
        if a.get('kind') != 'ArraySubscriptExpr':
            return None
        arr, idx = strip(a['inner'][0]), strip(a['inner'][1])
        if not (arr.get('kind') == 'ImplicitCastExpr' and arr.get('castKind') == 'LValueToRValue'):
            return None
        e = strip(arr['inner'][0])
        if not (e.get('kind') == 'MemberExpr' and e.get('name') == 'elements' and e.get('isArrow') and self.is_list_rv(e['inner'][0])):
            return None
        if idx.get('kind') != 'IntegerLiteral':
            return None
        return int(idx['value'])

    def lv(self, n):
        n = strip(n)
        k = n.get('kind')
        if k == 'DeclRefExpr':
            name = n['referencedDecl']['name']
            if name in self.ids and name not in self.ptr:
                return '(.var %d)' % self.ids[name]
            return self.note('lvalue-ref ' + name)
        if k == 'UnaryOperator' and n.get('opcode') == '*':
            inner = strip(n['inner'][0])
            if inner.get('kind') == 'ImplicitCastExpr' and inner.get('castKind') == 'LValueToRValue':
                inner = strip(inner['inner'][0])
            if inner.get('kind') == 'DeclRefExpr' and self.ptr.get(inner['referencedDecl']['name']) == 'out':
                return '(.deref %d)' % self.ids[inner['referencedDecl']['name']]
            return self.note('deref')
        if k == 'MemberExpr':
            base = n['inner'][0]
            if n.get('isArrow'):
                if n.get('name') == 'length' and self.is_list_rv(base):
                    return '.listLen'
                if n.get('name') == 'type':
                    k = self.elem_index(base)
                    if k is not None:
                        return '(.elemType %d)' % k
                o = self.obj(base)
                if o == 'setting' and n['name'] in SF:
                    return '(.sf %s)' % SF[n['name']]
                if o == 'config' and n['name'] in CF:
                    return '(.cf %s)' % CF[n['name']]
                return self.note('member ->' + n.get('name', '?'))
            b = strip(base)
            if (b.get('kind') == 'MemberExpr' and b.get('name') == 'value' and b.get('isArrow')
                    and self.obj(b['inner'][0]) == 'setting' and n['name'] in VF):
                return '(.sf %s)' % VF[n['name']]
            if self.is_list_lv(n):
                return '.listPtr'
            return self.note('member .' + n.get('name', '?'))
        return self.note('lvalue ' + str(k))

    def expr(self, n):
        k = n.get('kind')
        if k in ('ParenExpr', 'ConstantExpr'):
            return self.expr(n['inner'][0])
        if k == 'IntegerLiteral':
            return '(.lit %s)' % n['value']
        if k == 'FloatingLiteral':
            import struct
            bits = struct.unpack('<Q', struct.pack('<d', float(n['value'])))[0]
            return '(.flit %d)' % bits
        if k == 'ImplicitCastExpr' or k == 'CStyleCastExpr':
            ck = n.get('castKind')
            if ck == 'LValueToRValue':
                return '(.load %s %s)' % (self.lv(n['inner'][0]), ty(n))
            if ck in CAST:
                return '(.cast %s %s %s)' % (CAST[ck], ty(n), self.expr(n['inner'][0]))
            return self.note('cast ' + str(ck))
        if k == 'BinaryOperator':
            op = n.get('opcode')
            if op in BIN:
                return '(.bin %s %s %s %s)' % (BIN[op], ty(n), self.expr(n['inner'][0]), self.expr(n['inner'][1]))
            return self.note('binop ' + str(op))
        if k == 'UnaryOperator':
            op = n.get('opcode')
            if op in UN:
                return '(.un %s %s %s)' % (UN[op], ty(n), self.expr(n['inner'][0]))
            return self.note('unop ' + str(op))
        if k == 'ConditionalOperator':
            return '(.cond %s %s %s)' % tuple(self.expr(c) for c in n['inner'])
        if k == 'CallExpr':
            f = strip(n['inner'][0])
            while f.get('kind') == 'ImplicitCastExpr':
                f = strip(f['inner'][0])
            name = f.get('referencedDecl', {}).get('name')
            args = n['inner'][1:]
            if name == 'config_get_option' and len(args) == 2 and self.obj(args[0]) == 'config':
                return '(.call .getOption %s)' % self.expr(args[1])
            if name == 'config_setting_is_aggregate' and len(args) == 1 and self.obj(args[0]) == 'setting':
                return '(.call .settingIsAggregate (.lit 0))'
            if name == '__config_type_is_scalar' and len(args) == 1:
                return '(.call .typeIsScalar %s)' % self.expr(args[0])
            return self.note('call ' + str(name))
        return self.note('expr ' + str(k))

    def seq(self, items):
        items = [i for i in items if i != '.skip']
        if not items:
            return '.skip'
        out = items[-1]
        for i in reversed(items[:-1]):
            out = '(.seq %s %s)' % (i, out)
        return out

    def stmt(self, n):
        k = n.get('kind')
        if k == 'CompoundStmt':
            return self.seq([self.stmt(c) for c in n.get('inner', [])])
        if k == 'NullStmt':
            return '.skip'
        if k == 'ReturnStmt':
            if n.get('inner'):
                return '(.ret %s)' % self.expr(n['inner'][0])
            return '.retVoid'
        if k == 'BreakStmt':
            return '.brk'
        if k == 'IfStmt':
            inner = n['inner']
            if n.get('hasInit') or n.get('hasVar'):
                return self.note('if-with-init')
            c = self.expr(inner[0])
            a = self.stmt(inner[1])
            b = self.stmt(inner[2]) if len(inner) > 2 else '.skip'
            return '(.ite %s %s %s)' % (c, a, b)
        if k == 'SwitchStmt':
            return '(.switch %s %s)' % (self.expr(n['inner'][0]), self.stmt(n['inner'][1]))
        if k == 'CaseStmt':
            lab = strip(n['inner'][0])
            val = None
            if lab.get('kind') == 'IntegerLiteral':
                val = lab['value']
            elif n['inner'][0].get('kind') == 'ConstantExpr' and 'value' in n['inner'][0]:
                val = n['inner'][0]['value']
            if val is None:
                return self.note('case-label')
            return '(.case %s %s)' % (val, self.stmt(n['inner'][1]))
        if k == 'DefaultStmt':
            return '(.dflt %s)' % self.stmt(n['inner'][0])
        if k == 'BinaryOperator' and n.get('opcode') == '=':
            return '(.assign %s %s %s)' % (self.lv(n['inner'][0]), ty(n), self.expr(n['inner'][1]))
        if k == 'CompoundAssignOperator' and n.get('opcode') in ('|=', '&=', '+=', '-='):
            op = {'|=': '.bor', '&=': '.band', '+=': '.add', '-=': '.sub'}[n['opcode']]
            l = self.lv(n['inner'][0])
            return '(.assign %s %s (.bin %s %s (.load %s %s) %s))' % (l, ty(n), op, ty(n), l, ty(n),
                                                                    self.expr(n['inner'][1]))
        return self.note('stmt ' + str(k))


# ---------------------------------------------------------------------------------------------------------------------
# Control-flow skeletons (Generated/CFlowSource.lean): for the functions whose ORDER OF CALLS on every path is what the
# properties are about (__config_read, config_read_file, config_write_file, config_clear, config_destroy), the body is
# dumped as a tree of statements whose leaves are the normalised SOURCE TEXT of each simple statement / condition.
FLOW_FUNCS = ['__config_read', 'config_read', 'config_read_string', 'config_read_file', 'config_write_file',
              'config_clear', 'config_destroy', 'config_write', '__config_locale_override', '__config_locale_restore',
              'config_setting_add', 'config_setting_remove_elem', '__config_list_add', '__config_list_remove', 'config_setting_create',
              'config_setting_set_int_elem', 'config_setting_set_int64_elem', 'config_setting_set_float_elem',
              'config_setting_set_bool_elem', 'config_setting_set_string_elem',
              '__config_list_search', 'config_setting_lookup_const', 'config_setting_index', 'config_setting_get_elem',
              'config_setting_get_member', '__config_setting_destroy', '__config_list_destroy', 'config_setting_set_string',
              'config_set_include_dir']
# the include stack (lib/scanctx.c)
FLOW_FUNCS_SCANCTX = ['libconfig_scanctx_push_include', 'libconfig_scanctx_next_include_file', 'libconfig_scanctx_pop_include',
                      'libconfig_scanctx_cleanup', 'libconfig_scanctx_init', 'libconfig_scanctx_current_filename']


def _off(loc, end=False):
    if 'expansionLoc' in loc:
        loc = loc['expansionLoc']
    o = loc.get('offset')
    if o is None:
        return None
    return o + (loc.get('tokLen', 0) if end else 0)


def _norm(text):
    import re
    text = re.sub(r'/\*.*?\*/', ' ', text, flags=re.S)
    text = re.sub(r'//[^\n]*', ' ', text)
    text = re.sub(r'\s+', ' ', text).strip()
    text = re.sub(r' ?([^A-Za-z0-9_ ]) ?', r'\1', text)     # no blanks around punctuation
    return text


def _lean_str(t):
    return '"' + t.replace('\\', '\\\\').replace('"', '\\"') + '"'


class FlowFn:
    def __init__(self, src):
        self.src = src
        self.bad = []

    def text(self, n):
        r = n.get('range', {})
        a, b = _off(r.get('begin', {})), _off(r.get('end', {}), True)
        if a is None or b is None or b < a:
            self.bad.append('no-range ' + str(n.get('kind')))
            return '?'
        if 'expansionLoc' in r.get('end', {}):
            # the range ends at the NAME of a function-like macro: take its argument list too
            j = b
            while j < len(self.src) and self.src[j:j + 1] in (b' ', b'\t', b'\n'):
                j += 1
            if self.src[j:j + 1] == b'(':
                depth = 0
                while j < len(self.src):
                    c = self.src[j:j + 1]
                    depth += (c == b'(') - (c == b')')
                    j += 1
                    if depth == 0:
                        break
                b = j
        return _norm(self.src[a:b].decode('utf-8', 'replace'))

    def seq(self, items):
        items = [i for i in items if i != '.skip']
        if not items:
            return '.skip'
        out = items[-1]
        for i in reversed(items[:-1]):
            out = '(.seq %s %s)' % (i, out)
        return out

    def flat(self, n):
        """statement texts of a branch-free body, or None"""
        k = n.get('kind')
        if k == 'CompoundStmt':
            out = []
            for c in n.get('inner', []):
                f = self.flat(c)
                if f is None:
                    return None
                out += f
            return out
        if k in ('IfStmt', 'WhileStmt', 'ForStmt', 'DoStmt', 'SwitchStmt', 'ReturnStmt', 'GotoStmt', 'BreakStmt', 'ContinueStmt', 'LabelStmt'):
            return None
        return [self.text(n).rstrip(';')]

    def stmt(self, n):
        k = n.get('kind')
        if k == 'CompoundStmt':
            return self.seq([self.stmt(c) for c in n.get('inner', [])])
        if k == 'NullStmt':
            return '.skip'
        if k == 'ReturnStmt':
            return '(.ret %s)' % _lean_str(self.text(n['inner'][0]) if n.get('inner') else '')
        if k == 'IfStmt':
            if n.get('hasInit') or n.get('hasVar'):
                self.bad.append('if-with-init'); return '(.other "if-with-init")'
            inner = n['inner']
            return '(.ite %s %s %s)' % (_lean_str(self.text(inner[0])), self.stmt(inner[1]),
                                        self.stmt(inner[2]) if len(inner) > 2 else '.skip')
        if k == 'WhileStmt':
            body = self.flat(n['inner'][-1])
            if body is None:
                return '(.loopB %s %s)' % (_lean_str(self.text(n['inner'][0])), self.stmt(n['inner'][-1]))
            return '(.loop %s [%s])' % (_lean_str(self.text(n['inner'][0])), ', '.join(_lean_str(t) for t in body))
        if k == 'ForStmt':
            # for(init; cond; inc) body: the header is one text (empty parts stay empty)
            parts = n['inner']
            head = ';'.join(self.text(c) if c and c.get('kind') else '' for c in (parts[0], parts[2], parts[3]))
            body = self.flat(parts[-1])
            if body is None:
                return '(.loopB %s %s)' % (_lean_str('for(' + head + ')'), self.stmt(parts[-1]))
            return '(.loop %s [%s])' % (_lean_str('for(' + head + ')'), ', '.join(_lean_str(t) for t in body))
        if k == 'BreakStmt':
            return '.brk'
        if k == 'ContinueStmt':
            return '.cont'
        if k in ('DoStmt', 'SwitchStmt', 'GotoStmt', 'LabelStmt'):
            self.bad.append(k); return '(.other %s)' % _lean_str(k)
        return '(.stmt %s)' % _lean_str(self.text(n).rstrip(';'))


def _decls_of(repo, cfile):
    r = subprocess.run(['clang-14', '-fsyntax-only', '-w', '-Xclang', '-ast-dump=json',
                        '-DHAVE_USELOCALE', '-DHAVE_NEWLOCALE', '-DHAVE_FREELOCALE', '-DLIBCONFIG_STATIC',
                        '-I' + os.path.join(repo, 'lib'), os.path.join(repo, 'lib', cfile)], capture_output=True, text=True)
    out = {}
    if r.returncode == 0:
        try:
            for d in json.loads(r.stdout).get('inner', []):
                if d.get('kind') == 'FunctionDecl' and any(c.get('kind') == 'CompoundStmt' for c in d.get('inner', [])):
                    out[d['name']] = d
        except ValueError:
            pass
    return out


def generate_flow(repo, outdir, write_if_changed, decls_all):
    info = {'functions': {}, 'problems': {}}
    L = ['/- GENERATED by tools/ctranslate.py from lib/libconfig.c and lib/scanctx.c (clang AST + source ranges) - do not edit. -/',
         'import LibconfigModel.CFlow', 'namespace Libconfig.Generated.CFlowSource', 'open Libconfig.CFlow', '']
    scan_decls = _decls_of(repo, 'scanctx.c')
    srcs = {'libconfig.c': open(os.path.join(repo, 'lib', 'libconfig.c'), 'rb').read(),
            'scanctx.c': open(os.path.join(repo, 'lib', 'scanctx.c'), 'rb').read()}
    for f, cfile, table in [(f, 'libconfig.c', decls_all) for f in FLOW_FUNCS] + [(f, 'scanctx.c', scan_decls) for f in FLOW_FUNCS_SCANCTX]:
        src = srcs[cfile]
        d = table.get(f)
        name = 'flow_' + (f[2:] + '_impl' if f.startswith('__') else f)
        if d is None:
            L.append('def %s : Flow := .other "missing"' % name)
            info['functions'][f] = 'missing'
            continue
        fn = FlowFn(src)
        body = [c for c in d['inner'] if c.get('kind') == 'CompoundStmt'][0]
        L.append('def %s : Flow :=\n  %s' % (name, fn.stmt(body)))
        L.append('')
        info['functions'][f] = 'ok' if not fn.bad else 'partial'
        if fn.bad:
            info['problems'][f] = fn.bad
    L += ['end Libconfig.Generated.CFlowSource', '']
    write_if_changed(os.path.join(outdir, 'CFlowSource.lean'), '\n'.join(L))
    return info


def parse_docs(s):
    dec = json.JSONDecoder()
    i = 0
    docs = []
    while i < len(s):
        while i < len(s) and s[i].isspace():
            i += 1
        if i >= len(s):
            break
        o, i = dec.raw_decode(s, i)
        docs.append(o)
    return docs


def lean_name(f):
    return 'src_' + f.lstrip('_')


def generate(repo, outdir, write_if_changed):
    info = {'functions': {}, 'untranslated_nodes': {}}
    src = os.path.join(repo, 'lib', 'libconfig.c')
    L = ['/- GENERATED by tools/ctranslate.py from lib/libconfig.c (clang typed AST) - do not edit. -/',
         'import LibconfigModel.CSrc', 'namespace Libconfig.Generated.CSource', 'open Libconfig.CSrc', '']
    names = []
    r = subprocess.run(['clang-14', '-fsyntax-only', '-w', '-Xclang', '-ast-dump=json',
                        '-DHAVE_USELOCALE', '-DHAVE_NEWLOCALE', '-DHAVE_FREELOCALE', '-DLIBCONFIG_STATIC',
                        '-I' + os.path.join(repo, 'lib'), src], capture_output=True, text=True)
    decls = {}
    decls_all = {}
    if r.returncode == 0:
        try:
            tu = json.loads(r.stdout)
            for d in tu.get('inner', []):
                if d.get('kind') == 'FunctionDecl' and any(c.get('kind') == 'CompoundStmt' for c in d.get('inner', [])):
                    decls_all[d['name']] = d
                    if d.get('name') in FUNCS:
                        decls[d['name']] = d
        except ValueError as e:
            info['error'] = 'json: ' + str(e)
    else:
        info['error'] = r.stderr[-1500:]
    for f in FUNCS:
        d = decls.get(f)
        if d is None:
            # the function is gone (renamed, turned into a macro ...): the theorems about it must not survive
            L.append('def %s : Func := { name := "%s", nparams := 0, body := .bad }' % (lean_name(f), f))
            info['functions'][f] = 'missing'
            names.append(lean_name(f))
            continue
        fn = Fn(d)
        body = [c for c in d['inner'] if c.get('kind') == 'CompoundStmt'][0]
        text = fn.stmt(body)
        L.append('def %s : Func := { name := "%s", nparams := %d, body :=\n  %s }' % (lean_name(f), f, fn.nparams, text))
        L.append('')
        info['functions'][f] = 'ok' if not fn.bad else 'partial'
        if fn.bad:
            info['untranslated_nodes'][f] = fn.bad
        names.append(lean_name(f))
    L.append('def all : List Func := [%s]' % ', '.join(names))
    L += ['', 'end Libconfig.Generated.CSource', '']
    write_if_changed(os.path.join(outdir, 'CSource.lean'), '\n'.join(L))
    info['flow'] = generate_flow(repo, outdir, write_if_changed, decls_all)
    return info


if __name__ == '__main__':
    def w(path, text):
        old = open(path).read() if os.path.exists(path) else None
        if old != text:
            open(path, 'w').write(text)
    out = os.path.join(os.environ.get('VERIF_LEAN') or os.path.join(VERIF, 'lean'), 'LibconfigModel', 'Generated')
    print(json.dumps(generate(REPO, out, w)))
