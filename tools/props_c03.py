"""C03 — reading arbitrary bytes is memory-safe, terminates and never kills the process.

Dynamic part of the check.  The Lean theorems (Properties/C03.lean) decide the part of the
property that is logic; what this module does is VALIDATION, not proof: the real library,
compiled from the working tree with ASan + UBSan (+ LSan), is fed grammar-derived texts, their
coverage-guided byte-level mutations, texts straddling the scanner's 8/16/32 KiB buffer sizes,
embedded NULs, unterminated constructs, hostile `@include`s and nesting beyond the parser's
stack limit, through the three entry points; after every read the configuration is traversed,
looked up, written, modified, re-read and cleared (`battery`).

Direct oracle (needs no model): no sanitizer report, no crash, no `exit()` from library code
(`-Wl,--wrap=exit`), nothing written to stdout/stderr by the library, no timeout, `wf ok`,
lookups ok, the re-read succeeds, `leakcheck 0`.
Correspondence: result, error record, dump and battery digest are compared with the model.
"""
import os, re, shutil
import vlib, gen_text, streams, props
from vlib import Rng, hexs

EXTRA = ('-Wl,--wrap=exit',)
SAN = '-fsanitize=address,undefined -fno-sanitize-recover=all -fsanitize-coverage=trace-pc'
STREAM = 'c03'
H = hexs

# ------------------------------------------------------------------ projection and oracle

def proj_c03(op, out):
    w = props.first_word(op)
    if w in ('read_string', 'read_stream', 'read_file', 'read_chunked', 'deepnest', 'err', 'dump', 'wf', 'battery', 'leakcheck3',
             'lookup_all', 'read_stream_fail', 'read_stream_fail1', 'read_file_ioerr', 'read_string_ioerr', 'read_stream_eagain', 'strbuf_seq', 'strvec_seq'):
        return out
    return None          # cov, mkfile, mkdir, init, set_*: not part of the comparison

READS = ('read_string', 'read_stream', 'read_file', 'read_chunked', 'deepnest', 'read_stream_fail', 'read_stream_fail1', 'read_file_ioerr', 'read_string_ioerr', 'read_stream_eagain')
IOFAIL = ('read_stream_fail', 'read_stream_fail1', 'read_file_ioerr', 'read_string_ioerr', 'read_stream_eagain')
IO_ERR = '1 %s - 0' % b'file I/O error'.hex()
# prefixes that end in the middle of a construct after a complete token: the parser must ask for more input, so the
# failing read is reached and the I/O error is required although the prefix alone is rejected
STRICT_PREFIXES = [b'a = 1;\nb = [ 1, 2,', b'a = ', b'g = {', b'x = (1, ', b'a = 1;\nb', b'l = ( { y = 2; }', b's = "abc" ']
STRICT_IO = set(hexs(t) for t in STRICT_PREFIXES)

def oracle_c03(ops, outs):
    for i, (o, r) in enumerate(zip(ops, outs)):
        w = props.first_word(o)
        if r in ('<crashed>', '<dead>'):
            continue
        if 'EXIT-CALLED' in r:
            return i, 'library code called exit(): %s' % r[:200]
        if 'STRAY-STDOUT' in r or 'STRAY-STDERR' in r:
            m = re.search(r'STRAY-STD(OUT|ERR) ([0-9a-f]*)', r)
            txt = bytes.fromhex(m.group(2)[:400]) if m else b''
            return i, 'the library wrote to the program\'s std%s during a read: %r' % (m.group(1).lower() if m else '?', txt)
        if r.endswith('TIMEOUT'):
            return i, 'the operation did not return within its deadline (hang): %s' % o[:80]
        if w in READS and r.split(' ')[0] not in ('0', '1'):
            return i, 'a read returned neither success nor failure: %r' % r[:100]
        if w in IOFAIL:
            # direct oracle (no model needed): a read during which the input stream fails returns failure.  When the
            # failing file is read at all (top-level file, included file) the record is the I/O error.  For a caller's
            # stream that fails after delivering a prefix, the library notices the failure only if the scanner asks
            # for more input: if the prefix alone is accepted it must have, and the record is the I/O error;
            # if the prefix alone is rejected, the record is the I/O error or that of the prefix.
            if r.split(' ')[0] != '0':
                return i, 'a read whose input stream failed reported success'
            if i + 1 < len(outs) and props.first_word(ops[i + 1]) == 'err' and outs[i + 1] != IO_ERR:
                return i + 1, 'a read whose input file failed left the error record %r, expected the file I/O error' % outs[i + 1]
            if i + 1 < len(outs) and props.first_word(ops[i + 1]) == 'errio' and outs[i + 1] != IO_ERR:
                data = o.split(' ')[2] if len(o.split(' ')) > 2 else None
                plain = None
                for j in range(i - 1, 0, -1):
                    if ops[j - 1] == 'read_stream ' + str(data) and props.first_word(ops[j]) == 'err':
                        plain = (outs[j - 1].split(' ')[0], outs[j]); break
                if plain is None:
                    if outs[i + 1].split(' ')[0] != '2':
                        return i + 1, 'a read whose input stream failed left the error record %r' % outs[i + 1]
                elif plain[0] == '1' or data in STRICT_IO:
                    return i + 1, 'the delivered prefix %s, so the failing read was reached, but the error record is %r, not the file I/O error' % (
                        'alone is accepted' if plain[0] == '1' else 'ends in the middle of a construct', outs[i + 1])
                elif outs[i + 1] != plain[1]:
                    return i + 1, 'a read whose input stream failed left the error record %r: neither the file I/O error nor the record %r of the delivered prefix' % (outs[i + 1], plain[1])
        if w == 'battery':
            f = dict(x.split('=', 1) for x in r.split(' ')[1:] if '=' in x)
            if f.get('wf') != 'ok':
                return i, 'after the read the setting tree is not well-formed: wf=%s' % f.get('wf')
            if f.get('lookup') not in ('ok', 'skip') or f.get('spine') != 'ok':
                return i, 'after the read a setting is not found by its own path (lookup=%s spine=%s)' % (f.get('lookup'), f.get('spine'))
            if f.get('reread') != '1:7' or f.get('clear') != '0':
                return i, 'after the read the configuration cannot be re-read / cleared (reread=%s clear=%s)' % (f.get('reread'), f.get('clear'))
        if w == 'wf' and r != 'wf ok':
            return i, 'well-formedness walk of the real structs failed: ' + r
        if w == 'leakcheck3' and r != 'leakcheck 0':
            return i, 'LeakSanitizer found memory that is no longer reachable after the reads (see stderr of the replay)'
    return None

# ------------------------------------------------------------------ cases

ENTRIES = ('string', 'stream', 'file')

def read_ops(entry, text, name=b'in.cfg'):
    if entry == 'string':
        return ['read_string ' + H(text)]
    if entry == 'stream':
        return ['read_stream ' + H(text)]
    if entry == 'chunked':
        return ['read_chunked 7 ' + H(text)]
    return ['mkfile %s %s' % (H(name), H(text)), 'read_file ' + H(name)]

def run_case(impl, stats, tag, entry, text, setup=(), leak=False):
    """one self-contained case: fresh configuration, world set-up, read, error record, tree, battery"""
    impl.do('init')
    for s in setup:
        impl.do(s)
    out = None
    for op in read_ops(entry, text):
        out = impl.do(op)
    impl.do('err')
    impl.do('dump')
    impl.do('battery')
    if leak:
        impl.do('leakcheck3')
    k = '%s:%s:%s' % (tag, entry, (out or '?').split(' ')[0][:12])
    stats[k] = stats.get(k, 0) + 1
    n = len(text)
    b = 'size:' + ('0' if n == 0 else '<256' if n < 256 else '<8K' if n < 8192 else '<16K' if n < 16384 else '<32K' if n < 32768 else '>=32K')
    stats[b] = stats.get(b, 0) + 1
    return out

def pad_to(target, probe, tail=b'\ntail = 1;\n'):
    """a valid prefix of settings and one comment such that `probe` starts exactly at offset `target`"""
    lines = []; n = 0; i = 0
    while n < target - 60:
        l = b'k%05d = %d;\n' % (i, i * 7)
        lines.append(l); n += len(l); i += 1
    pad = target - n
    if pad >= 2:
        lines.append(b'#' + b'.' * (pad - 2) + b'\n')
    else:
        lines.append(b' ' * pad)
    return b''.join(lines) + probe + tail

BOUNDARY_PROBES = [b'name = "a string value";', b's = "unterminated', b'/* unterminated comment', b'v = 0x7fffffffffffffffL;',
                   b'l = ( 1, ( 2, [ 3, 4 ] ), { a = "\\x41\\n"; } );', b'@include "missing.cfg"', b'v = 1.5e300;', b's = "\\',
                   b'\x00\x00v = 1;', b'\xff\xfe = {', b'v = = ;', b'"', b'# comment to the end']

UNTERMINATED = [b'"', b's = "abc', b's = "abc\\', b's = "abc\\x', b's = "abc\\x4', b'/*', b'/* a * b', b'a = 1; /', b'// no newline', b'# no newline',
                b'@include "', b'@include "abc', b'@include "abc\\', b'\n@include "abc\\"', b'  @include\t"x', b'a = {', b'a = (', b'a = [', b'a = [1,', b'a = (1, {',
                b'a = { b = ( [', b'a', b'a =', b'a = 1', b'a = "x" "y', b'a = 0x', b'a = 1e', b'a = -', b'a = { b = 1; c', b'}', b')', b']', b';', b',',
                b'a = { } }', b'a = ( ) )', b'\\', b'@', b'@include', b'@include x', b'\n@include\n', b'a = 1;\n@include "', b'\x00', b'a\x00= 1;', b'a = "x\x00y";',
                b's = "\x00', b'/* \x00 */ a = 1;', b'# \x00\na = 1;', b'\n@include "a\x00b"\n', b'a = 1;\x00garbage " /* ( [ {']

def include_cases():
    """(tag, setup ops, entry, text): hostile include directives"""
    cs = []
    mk = lambda p, c: 'mkfile %s %s' % (H(p), H(c))
    for entry in ENTRIES:
        cs.append(('inc-missing', [], entry, b'a = 1;\n@include "nonexistent.cfg"\nb = 2;\n'))
        cs.append(('inc-dir', ['mkdir ' + H(b'adir')], entry, b'a = 1;\n@include "adir"\nb = 2;\n'))
        cs.append(('inc-dir-first', ['mkdir ' + H(b'adir')], entry, b'@include "adir"\n'))
        cs.append(('inc-dir-slash', ['mkdir ' + H(b'adir')], entry, b'@include "adir/"\n'))
        cs.append(('inc-dot', [], entry, b'@include "."\n'))
        cs.append(('inc-empty-name', [], entry, b'@include ""\n'))
        cs.append(('inc-self', [mk(b'in.cfg', b'x = 1;\n@include "in.cfg"\n')], entry, b'x = 1;\n@include "in.cfg"\n'))
        cs.append(('inc-mutual', [mk(b'p.cfg', b'@include "q.cfg"\n'), mk(b'q.cfg', b'@include "p.cfg"\n')], entry, b'@include "p.cfg"\n'))
        chain = [mk(b'c%d.cfg' % i, b'v%d = %d;\n@include "c%d.cfg"\n' % (i, i, i + 1)) for i in range(1, 12)] + [mk(b'c12.cfg', b'last = 12;\n')]
        cs.append(('inc-chain12', chain, entry, b'v0 = 0;\n@include "c1.cfg"\n'))
        chain9 = [mk(b'd%d.cfg' % i, b'w%d = %d;\n@include "d%d.cfg"\n' % (i, i, i + 1)) for i in range(1, 9)] + [mk(b'd9.cfg', b'last = 9;\n')]
        cs.append(('inc-chain9', chain9, entry, b'w0 = 0;\n@include "d1.cfg"\n'))
        cs.append(('inc-error-inside', [mk(b'bad.cfg', b'p = 1;\nq = ;\n')], entry, b'a = 1;\n@include "bad.cfg"\nb = 2;\n'))
        cs.append(('inc-unterminated-inside', [mk(b'bad.cfg', b'p = "abc')], entry, b'a = 1;\n@include "bad.cfg"\nb = 2;\n'))
        cs.append(('inc-nul-inside', [mk(b'nul.cfg', b'p = 1;\x00q = 2;\n')], entry, b'a = 1;\n@include "nul.cfg"\nb = 2;\n'))
        cs.append(('inc-empty-file', [mk(b'empty.cfg', b'')], entry, b'a = 1;\n@include "empty.cfg"\nb = 2;\n'))
        cs.append(('inc-big', [mk(b'big.cfg', pad_to(16384, b'inner = "x";'))], entry, b'a = 1;\n@include "big.cfg"\nb = 2;\n'))
        cs.append(('inc-missing-deep', [mk(b'm1.cfg', b'@include "m2.cfg"\n'), mk(b'm2.cfg', b'z = 1;\n@include "nope.cfg"\n')], entry, b'@include "m1.cfg"\n'))
        cs.append(('inc-dir-deep', [mk(b'm1.cfg', b'@include "adir"\n'), 'mkdir ' + H(b'adir')], entry, b'y = 1;\n@include "m1.cfg"\n'))
        cs.append(('inc-backslash', [], entry, b'@include "a\\q\\\\b\\"c"\n'))
        cs.append(('inc-twice', [mk(b't.cfg', b't = 1;\n')], entry, b'@include "t.cfg"\n@include "t.cfg"\n'))
        cs.append(('inc-in-group', [mk(b't.cfg', b't = 1;\n')], entry, b'g = {\n@include "t.cfg"\n};\n'))
    many = [mk(b'f%02d.cfg' % i, b'm%02d = %d;\n' % (i, i)) for i in range(70)]
    for entry in ENTRIES:
        # the file-name vector grows in chunks of 32 and is NULL-terminated at release: exact multiples matter
        for cnt in (31, 32, 33, 63, 64, 70):
            cs.append(('inc-many%d' % cnt, many[:cnt], entry, b''.join(b'@include "f%02d.cfg"\n' % i for i in range(cnt))))
        cs.append(('inc-many33-then-error', many, entry, b''.join(b'@include "f%02d.cfg"\n' % i for i in range(33)) + b'x = ;\n'))
    # a custom include function that expands one directive to several files (the default one never does): buffers and
    # streams of every file but the last are released when the scanner moves on; errors, missing files and NULL/empty
    # expansions in the middle of the list
    fn1 = 'set_include_fn 1'
    trio = [mk(b'a.cfg', b'a = 1;\n'), mk(b'b.cfg', b'b = 2;\nbb = (1, 2);\n'), mk(b'c.cfg', b'c = 3;')]
    for entry in ENTRIES:
        cs.append(('multi-ok', [fn1] + trio, entry, b'x = 0;\n@include "a.cfg|b.cfg|c.cfg"\ny = 1;\n'))
        cs.append(('multi-twice', [fn1] + trio, entry, b'@include "a.cfg|b.cfg"\n@include "c.cfg|c.cfg|c.cfg|c.cfg"\n' * 3))
        cs.append(('multi-error-in-2nd', [fn1] + trio + [mk(b'bad.cfg', b'p = ;\n')], entry, b'@include "a.cfg|bad.cfg|c.cfg"\n'))
        cs.append(('multi-missing-2nd', [fn1] + trio, entry, b'@include "a.cfg|gone.cfg|c.cfg"\n'))
        cs.append(('multi-missing-last', [fn1] + trio, entry, b'@include "a.cfg|b.cfg|gone.cfg"\nz = 1;\n'))
        cs.append(('multi-empty-expansion', [fn1], entry, b'@include ""\na = 1;\n@include "?x"\nb = 2;\n'))
        cs.append(('multi-fn-error', [fn1], entry, b'a = 1;\n@include "!boom"\nb = 2;\n'))
        cs.append(('multi-nested', [fn1] + trio + [mk(b'n.cfg', b'@include "a.cfg|b.cfg"\nn = 1;\n')], entry, b'@include "n.cfg|c.cfg"\n'))
    cs.append(('file-missing', [], 'file-raw', b'nofile.cfg'))
    cs.append(('file-dir', ['mkdir ' + H(b'adir')], 'file-raw', b'adir'))
    cs.append(('file-empty-name', [], 'file-raw', b''))
    return cs

def deepnest_cases(tier):
    if tier == 'quick':
        return [('list', 300, 1), ('list', 4999, 1), ('list', 5000, 1), ('list', 12000, 1), ('list', 12000, 0),
                ('group', 300, 1), ('group', 12000, 1), ('group', 2500, 0), ('mixed', 3000, 1), ('array', 2000, 1), ('array', 12000, 0)]
    out = []
    for kind in ('list', 'group', 'mixed', 'array'):
        for lv in (0, 1, 2, 63, 64, 65, 300, 1000, 1998, 1999, 2000, 2001, 2499, 2500, 2501, 3332, 3333, 3334, 4998, 4999, 5000, 5001, 9999, 10000, 10001, 12000):
            for closed in (1, 0):
                out.append((kind, lv, closed))
    return out

# ------------------------------------------------------------------ sessions

CURRENT = {'impl': None}      # the session in progress (its full op list is the fallback for minimisation)

def sess_fixed(cases, tag_prefix=''):
    def fn(impl, rng, stats):
        CURRENT['impl'] = impl
        for n, (tag, setup, entry, text) in enumerate(cases):
            if entry == 'file-raw':
                impl.do('init')
                for s in setup:
                    impl.do(s)
                out = impl.do('read_file ' + H(text))
                impl.do('err'); impl.do('dump'); impl.do('battery')
                stats['%s:%s' % (tag, out.split(' ')[0])] = stats.get('%s:%s' % (tag, out.split(' ')[0]), 0) + 1
            else:
                run_case(impl, stats, tag_prefix + tag, entry, text, setup, leak=(n % 8 == 7))
        impl.do('leakcheck3')
    return fn

def sess_iofail(texts):
    """reads during which a read from the input stream fails: the caller's stream after every kind of prefix
    (delivered whole, byte-wise, in 7-byte pieces), a top-level file and an included file whose first read fails"""
    BAD = b'/proc/self/mem'          # opens, is not a directory, every read fails with EIO
    def fn(impl, rng, stats):
        CURRENT['impl'] = impl
        def after(tag, out):
            impl.do('err'); impl.do('dump'); impl.do('battery')
            k = 'iofail:%s:%s' % (tag, (out or '?').split(' ')[0][:12]); stats[k] = stats.get(k, 0) + 1
        for n, t in enumerate(texts):
            cuts = sorted(set([0, 1, len(t) // 2, max(len(t) - 1, 0), len(t)]))
            for c in cuts:
                impl.do('init')
                if n % 2:
                    impl.do('read_string ' + H(b'old = 1; old2 = (1, 2);'))      # a previous tree and error-free state
                else:
                    impl.do('read_string ' + H(b'old = ;'))                      # a previous parse error
                # the delivered prefix alone first (its record is one of the two admissible ones, see the oracle)
                impl.do('read_stream ' + H(t[:c])); impl.do('err')
                impl.do('init')
                # the failure is persistent or transient (one failing read, then end of file), alternately
                out = impl.do('read_stream_fail%s %d %s' % (('', '1')[(n // 3 + c) % 2], (0, 1, 7)[(n + c) % 3], H(t[:c])))
                impl.do('errio'); impl.do('dump'); impl.do('battery')
                k = 'iofail:stream:%s' % (out or '?').split(' ')[0][:12]; stats[k] = stats.get(k, 0) + 1
        for t in STRICT_PREFIXES:
            for ch in (0, 1, 7):
              for once in ('', '1'):
                impl.do('init'); impl.do('read_stream ' + H(t)); impl.do('err'); impl.do('init')
                out = impl.do('read_stream_fail%s %d %s' % (once, ch, H(t))); impl.do('errio'); impl.do('dump'); impl.do('battery')
                k = 'iofail:mid-construct%s:%s' % (once, (out or '?').split(' ')[0][:12]); stats[k] = stats.get(k, 0) + 1
        # a failure that looks transient (EAGAIN from a non-blocking descriptor) must fail too, not be retried for ever
        for t in (b'', b'a = 1;\n', b'a = (1, 2'):
            impl.do('init'); out = impl.do('read_stream_eagain ' + H(t)); impl.do('errio'); impl.do('dump'); impl.do('battery')
            k = 'iofail:eagain:%s' % (out or '?').split(' ')[0][:12]; stats[k] = stats.get(k, 0) + 1
        if impl.do('probe_badfile ' + H(BAD)) != '1':
            stats['iofail:no-unreadable-file-on-this-system'] = 1      # the file / include cases need one
            impl.do('leakcheck3')
            return
        impl.do('init'); after('file', impl.do('read_file_ioerr ' + H(BAD)))
        for t in (b'a = 1;\n@include "/proc/self/mem"\nb = 2;\n', b'@include "/proc/self/mem"\n', b'g = {\n@include "/proc/self/mem"\n',
                  b'a = 1;\n@include "/proc/self/mem"\nb = ;\n'):
            impl.do('init'); after('include', impl.do('read_string_ioerr %s %s' % (H(BAD), H(t))))
        impl.do('leakcheck3')
    return fn

def sess_deepnest(cases):
    def fn(impl, rng, stats):
        CURRENT['impl'] = impl
        for kind, levels, closed in cases:
            impl.do('init')
            out = impl.do('deepnest %s %d %d' % (kind, levels, closed))
            impl.do('err')
            impl.do('battery')
            k = 'deepnest:%s:%s:%s' % (kind, 'closed' if closed else 'open', out.split(' ')[0])
            stats[k] = stats.get(k, 0) + 1
            stats['deepnest:max-levels'] = max(stats.get('deepnest:max-levels', 0), levels)
        impl.do('leakcheck3')
    return fn

def sess_guided(seeds, budget):
    """coverage-guided mutation: a mutant that makes the instrumented library execute a basic block
    not seen before joins the corpus the next mutants are drawn from"""
    def fn(impl, rng, stats):
        CURRENT['impl'] = impl
        def cov():
            r = impl.do('cov').split(' ')
            return int(r[1]) if len(r) == 2 and r[1].isdigit() else 0
        corpus = []
        best = 0
        for t in seeds:
            run_case(impl, stats, 'seed', rng.choice(ENTRIES), t)
            c = cov()
            if c > best or len(corpus) < 8:
                corpus.append(t); best = max(best, c)
        stats['guided:blocks-after-seeds'] = best
        for i in range(budget):
            t = gen_text.mutate(rng, rng.choice(corpus))
            if rng.chance(1, 4):
                t = gen_text.mutate(rng, t)
            if len(t) > 6000:
                t = t[:6000]
            run_case(impl, stats, 'mutant', rng.choice(ENTRIES), t, leak=(i % 50 == 49))
            c = cov()
            if c > best:
                best = c; corpus.append(t)
                stats['guided:kept'] = stats.get('guided:kept', 0) + 1
        stats['guided:blocks-final'] = best
        stats['guided:corpus'] = len(corpus)
        impl.do('leakcheck3')
    return fn

# ------------------------------------------------------------------ minimisation of crashing replays

def _fails(exe, work, ops, env):
    env = dict(env); env['C03_ALARM'] = '8'       # a hang must not cost 20 s per shrinking step
    io, rc, err = props.run_impl_batch(exe, os.path.join(work, 'scratch-min'), ops, env)
    if rc != 0 or 'ERROR: ' in err or 'runtime error' in err:
        return True
    return oracle_c03(ops, io) is not None

def minimise(exe, work, ops, env, budget=120):
    """shrink a failing op list: keep the last case (from its `init`), drop ops, then shrink the bytes read"""
    import time
    runs = [0]
    t0 = time.time()
    def fails(c):
        if time.time() - t0 > 90:        # wall-clock budget of one minimisation
            runs[0] = budget
            return False
        runs[0] += 1
        return _fails(exe, work, c, env)
    inits = [i for i, o in enumerate(ops) if o == 'init']
    cur = list(ops)
    if not fails(cur):
        return ops, False
    if inits:
        for start in reversed(inits):
            cand = ops[start:]
            if fails(cand):
                cur = cand; break
    # drop single ops (keep order), last to first
    i = len(cur) - 1
    while i >= 0 and runs[0] < budget:
        cand = cur[:i] + cur[i + 1:]
        if cand and fails(cand):
            cur = cand
        i -= 1
    # shrink the hex payload of the longest argument
    def payload_pos():
        best = None
        for k, o in enumerate(cur):
            parts = o.split(' ')
            for j, p in enumerate(parts[1:], 1):
                if len(p) >= 8 and re.fullmatch(r'[0-9a-f]+', p) and len(p) % 2 == 0 and (best is None or len(p) > best[2]):
                    best = (k, j, len(p))
        return best
    pos = payload_pos()
    if pos:
        k, j, _ = pos
        parts = cur[k].split(' ')
        data = bytes.fromhex(parts[j])
        n = 2
        while len(data) >= 2 and runs[0] < budget:
            chunk = max(1, len(data) // n)
            reduced = False
            for s in range(0, len(data), chunk):
                cand_data = data[:s] + data[s + chunk:]
                p2 = list(parts); p2[j] = H(cand_data)
                cand = cur[:k] + [' '.join(p2)] + cur[k + 1:]
                if fails(cand):
                    data = cand_data; cur = cand; n = max(n - 1, 2); reduced = True
                    break
                if runs[0] >= budget:
                    break
            if not reduced:
                if chunk == 1:
                    break
                n = min(n * 2, len(data))
    return cur, True

# ------------------------------------------------------------------ the check

def run_C03(ctx):
    tier = ctx['tier']
    work = ctx['work']
    seed = ctx['seed']
    env = {'ASAN_OPTIONS': 'detect_leaks=1:abort_on_error=0:detect_stack_use_after_return=0', 'UBSAN_OPTIONS': 'print_stacktrace=1'}
    exe_path = os.path.join(work, 'h' + STREAM, 'drv_api')
    orig_violation = ctx['violation']

    import time
    spent = {'t': 0.0, 'n': 0}       # minimisation is bounded per run: 5 findings, 5 minutes

    def violation(kind, what, payload, found_input):
        # crashes, exits and sanitizer reports arrive with the last 30 operations: cut them down to a small replay
        if found_input and payload.get('ops') and os.path.exists(exe_path) and spent['n'] < 5 and spent['t'] < 300:
            t_min = time.time()
            spent['n'] += 1
            try:
                mini, ok = minimise(exe_path, work, payload['ops'], env)
                if not ok and CURRENT['impl'] is not None:
                    # the 30-operation window does not reproduce on its own: take the whole case from the session
                    im = CURRENT['impl']
                    end = next((i for i, r in enumerate(im.outs) if r in ('<crashed>', '<dead>')), len(im.ops) - 1)
                    full = im.ops[:end + 1]
                    starts = [i for i, o in enumerate(full) if o == 'init']
                    for st in reversed(starts[-2:]):
                        mini, ok = minimise(exe_path, work, full[st:], env)
                        if ok:
                            break
                if ok:
                    payload = dict(payload)
                    payload['ops'] = mini
                    io, rc, err = props.run_impl_batch(exe_path, os.path.join(work, 'scratch-min'), mini, env)
                    payload['impl'] = [x[:400] for x in io[-4:]]
                    payload['rc'] = rc
                    payload['stderr'] = err[-3000:]
                    try:      # a UBSan report made while the harness had stderr captured
                        cap = open(os.path.join(work, 'scratch-min', '.c03-stderr'), errors='replace').read()
                        if cap.strip():
                            payload['stderr_captured_during_read'] = cap[-2000:]
                    except OSError:
                        pass
                    hit = oracle_c03(mini, io)
                    alltxt = err + payload.get('stderr_captured_during_read', '')
                    if 'crashed' in what:
                        m = re.search(r'(AddressSanitizer: [a-z\-]+|LeakSanitizer: detected memory leaks|runtime error: [^\n]{0,120})', alltxt)
                        if hit:
                            what = what + ' — ' + hit[1]
                        elif m:
                            what = what + ' — ' + m.group(1)
            except Exception as e:       # minimisation is a convenience; never lose the finding
                payload = dict(payload); payload['minimise_error'] = repr(e)
            spent['t'] += time.time() - t_min
        payload = dict(payload)
        payload.setdefault('driver', 'drv_api.c')
        payload['harness_link_flags'] = list(EXTRA)
        orig_violation(kind, what, payload, found_input)
    cctx = dict(ctx); cctx['violation'] = violation

    def corr(fns, what):
        props.correspondence(cctx, fns, proj_c03, oracle_c03, what, STREAM, extra=EXTRA, san=SAN, impl_env=env)

    if ctx.get('replay'):
        import json
        r = json.load(open(ctx['replay']))
        ops = r.get('ops') or []
        def fn(impl, rng, stats):
            for o in ops:
                impl.do(o)
        corr([fn], 'C03 replay')
        return

    rng = Rng(seed * 2654435761 + 3)
    quick = tier == 'quick'
    sessions = []

    # 1. grammar-derived corpus through the three entry points
    n_valid = 30 if quick else 300
    valid = [gen_text.rand_valid_text(rng) for _ in range(n_valid)]
    cases = [('valid', [], e, t) for t in valid for e in ENTRIES]
    sessions.append(sess_fixed(cases))

    # 2. coverage-guided mutation of the corpus
    seeds = valid[:12 if quick else 60] + [b'', b'a = 1;', b'@include "x"\n', b's = "\\x41\\n" "b";', b'l = (1, [2, 3], {a = 1L;});']
    sessions.append(sess_guided(seeds, 600 if quick else 8000))

    # 3. sizes 0 ... 40 KiB across the scanner's buffer boundaries
    sizes = [0, 1, 8190, 8192, 8193, 16382, 16384, 16385, 32768, 40960] if quick else \
            sorted(set([0, 1, 2, 4095, 4096, 4097, 40960] + [B + d for B in (8192, 16384, 32768) for d in range(-6, 7)]))
    cases = []
    for k, sz in enumerate(sizes):
        probes = [BOUNDARY_PROBES[(k + j * 5) % len(BOUNDARY_PROBES)] for j in range(2)] if quick else BOUNDARY_PROBES
        for pi, probe in enumerate(probes):
            text = pad_to(sz, probe) if sz > 1 else (b'' if sz == 0 else b'a')
            ents = ENTRIES
            for e in ents:
                if e == 'string' and b'\x00' in text and sz > 1:
                    e = 'stream'
                cases.append(('size%d' % sz, [], e, text))
    # fan-out across the chunk sizes of the child vectors (the battery removes the first and last root child)
    for wdt in (15, 16, 17, 31, 32, 33, 48, 64, 65):
        text = b''.join(b'w%d = %d;\n' % (i, i) for i in range(wdt)) + b'lst = (' + b', '.join(b'%d' % i for i in range(wdt)) + b');\narr = [' + \
               b', '.join(b'%d' % i for i in range(wdt)) + b'];\n'
        cases.append(('wide%d' % wdt, [], ENTRIES[wdt % 3], text))
        cases.append(('wide%d' % wdt, [], ENTRIES[(wdt + 1) % 3], b''.join(b'w%d = %d;\n' % (i, i) for i in range(wdt))))
    # a string, a comment and a run of garbage that are themselves longer than the buffer
    big = [b's = "' + b'x' * 20000 + b'";', b'/* ' + b'c' * 20000 + b' */ a = 1;', b'\xff' * 9000, b'a = ' + b'9' * 9000 + b';', b'n' * 17000 + b' = 1;',
           b's = "' + b'\\x41' * 5000 + b'";', b'\x00' * 9000 + b'a = 1;', b'(' * 9000, b'"' + b'y' * 33000]
    for j, t in enumerate(big if not quick else big[:6] + big[7:]):
        cases.append(('big%d' % j, [], ENTRIES[j % 3] if b'\x00' not in t else 'stream', t))
    sessions.append(sess_fixed(cases))

    # 4. unterminated constructs and embedded NULs
    cases = []
    for t in UNTERMINATED:
        for e in ENTRIES:
            cases.append(('unterminated' if b'\x00' not in t else 'nul', [], e, t))
    for t in valid[:6 if quick else 40]:
        for _ in range(2):
            b = bytearray(t)
            for _ in range(rng.range(1, 3)):
                b.insert(rng.below(len(b) + 1), 0)
            for e in ENTRIES:
                cases.append(('nul', [], e, bytes(b)))
    sessions.append(sess_fixed(cases))

    # 5. hostile includes
    sessions.append(sess_fixed(include_cases()))

    # 6. nesting up to and beyond the parser's stack limit
    sessions.append(sess_deepnest(deepnest_cases(tier)))

    # 7. a read from the input stream fails (flex's default YY_INPUT would exit(2))
    io_texts = [b'', b'a = 1;\nb = "two";\n', b'g = { x = (1, 2, [3, 4]); s = "abc" "def"; };\n/* c */ t = 1.5;\n',
                b'@include "x.cfg"\na = 1;\n', b'a = [1, 2,\n 3];;;; b : { c = 0x1FL; }'] + valid[:3 if quick else 40]
    sessions.append(sess_iofail(io_texts))

    # 8. the container models of Containers.lean against the real strbuf / strvec functions, op by op: every op
    #    sequence over a small alphabet up to length 4 (thorough: 5) plus long random ones across many growth steps
    def containers(impl, r, stats):
        import itertools
        alpha = ['s0', 's1', 's62', 's63', 's64', 's65', 's127', 's128', 's200', 'c', 'r']
        Lc = 3 if quick else 4
        for l in range(1, Lc + 1):
            for seq in itertools.product(alpha, repeat=l):
                impl.do('strbuf_seq ' + ','.join(seq)); stats['containers:strbuf'] = stats.get('containers:strbuf', 0) + 1
        for _ in range(40 if quick else 2000):
            seq = [r.choice(['s%d' % r.below(300), 'c', 'c', 'c', 's%d' % r.choice([0, 63, 64, 65]), 'r']) for _ in range(r.range(5, 120))]
            impl.do('strbuf_seq ' + ','.join(seq)); stats['containers:strbuf'] = stats.get('containers:strbuf', 0) + 1
        for n in (0, 1, 31, 32, 33, 63, 64, 65, 100, 200):
            impl.do('strvec_seq ' + 'a' * n); impl.do('strvec_seq ' + 'a' * n + 'r' + 'a' * (n // 2 + 1)); stats['containers:strvec'] = stats.get('containers:strvec', 0) + 2
        for _ in range(30 if quick else 1000):
            impl.do('strvec_seq ' + ''.join(r.choice('aaaaaaaaaaaaaaaaaaaar') for _ in range(r.range(1, 150)))); stats['containers:strvec'] = stats.get('containers:strvec', 0) + 1
    sessions.append(containers)

    # one harness build, one session per stream
    corr(sessions, 'C03 crash-freedom and usability after a read')

    cov = ctx['cov']
    cov['partial'] = ('PARTIAL property: the Lean theorems decide outcome logic, table bounds, the stack bound, container arithmetic and '
                      'scanner progress; memory safety of the C code is OBSERVED here by ASan/UBSan/LSan on the executed paths '
                      '(validation of the tie, not proof)')
    cov['direct_oracle'] = ('no sanitizer report, no crash, no exit() from library code (--wrap=exit), no byte written to stdout/stderr by '
                            'the library, no timeout (alarm), wf ok, lookups ok, re-read ok, leakcheck 0; after every read: battery = '
                            'dump, wf, lookup_all / first-child chain lookup, write, remove first and last child, add+set two settings, '
                            'write, lookup, re-read, clear')
    d = cov.get('distribution', {}).get(STREAM, {})
    cov['guided_mutation'] = {k: v for k, v in d.items() if k.startswith('guided:')}
    cov['sizes'] = {k: v for k, v in d.items() if k.startswith('size:')}
    cov['deepest_nesting_levels'] = d.get('deepnest:max-levels')
