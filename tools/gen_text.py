"""Seeded generators of configuration texts: grammar-derived valid texts with varied
spellings, an incremental viable-prefix recogniser used to enumerate token sequences
exhaustively (C02), byte-level mutations (C03), numeric literal spellings (C08), and
include forests cut at line boundaries (C10, C11)."""
from vlib import Rng, hexs
import struct

# ------------------------------------------------------------------ token kinds

KINDS = ['BOOL', 'INT', 'HEX', 'INT64', 'HEX64', 'FLOAT', 'STRING', 'NAME', 'EQ', 'LB', 'RB', 'LP', 'RP', 'COMMA',
         'LC', 'RC', 'SEMI', 'GARBAGE', 'EOF']
SCALARS = ['BOOL', 'INT', 'HEX', 'INT64', 'HEX64', 'FLOAT', 'STRING']

class Viable:
    """Incremental recogniser of viable prefixes of the documented grammar (token kinds only).
    state: tuple of frames; a frame is (container, phase).
      container: 'top' | 'group' | 'list' | 'array'
      phase for top/group: 'S' expect setting or end; 'N' after NAME; 'V' after '='; 'T' after a value (terminator optional);
                           'TS' after a string value (more strings may follow)
      phase for list/array: '0' just opened; 'E' after an element; 'ES' after a string element; 'C' after a comma
    """
    START = (('top', 'S'),)
    @staticmethod
    def step(state, tok):
        """returns the new state, 'ACCEPT', or None (not viable)"""
        cont, ph = state[-1]
        rest = state[:-1]
        def push_value(newtop):
            # newtop: the phase the current frame goes to once the value is complete
            if tok in SCALARS:
                if tok == 'STRING':
                    return rest + ((cont, newtop + 'S'),)
                return rest + ((cont, newtop),)
            if tok == 'LB':
                return rest + ((cont, newtop), ('array', '0'))
            if tok == 'LP':
                return rest + ((cont, newtop), ('list', '0'))
            if tok == 'LC':
                return rest + ((cont, newtop), ('group', 'S'))
            return None
        if cont in ('top', 'group'):
            if ph in ('S', 'T', 'TS'):
                if ph == 'TS' and tok == 'STRING':
                    return state
                if ph in ('T', 'TS') and tok in ('SEMI', 'COMMA'):
                    return rest + ((cont, 'S'),)
                if tok == 'NAME':
                    return rest + ((cont, 'N'),)
                if cont == 'top' and tok == 'EOF':
                    return 'ACCEPT'
                if cont == 'group' and tok == 'RC':
                    return rest          # the enclosing frame is already in its "after value" phase
                return None
            if ph == 'N':
                return rest + ((cont, 'V'),) if tok == 'EQ' else None
            if ph == 'V':
                return push_value('T')
        if cont == 'array':
            close = 'RB'
            if ph in ('0', 'C'):
                if tok == close:
                    return rest
                if tok in SCALARS:
                    return rest + ((cont, 'ES' if tok == 'STRING' else 'E'),)
                return None
            if ph in ('E', 'ES'):
                if ph == 'ES' and tok == 'STRING':
                    return state
                if tok == 'COMMA':
                    return rest + ((cont, 'C'),)
                if tok == close:
                    return rest
                return None
        if cont == 'list':
            if ph in ('0', 'C'):
                if tok == 'RP':
                    return rest
                return push_value('E')
            if ph in ('E', 'ES'):
                if ph == 'ES' and tok == 'STRING':
                    return state
                if tok == 'COMMA':
                    return rest + ((cont, 'C'),)
                if tok == 'RP':
                    return rest
                return None
        return None

def enumerate_prefixes(maxlen):
    """all viable token-kind prefixes up to maxlen, each with its viable/ACCEPT status, plus every
    one-token invalid extension.  Yields (tokens, expected) with expected in {'accept','reject','prefix'}:
    'prefix' sequences are followed by EOF and are accepted iff EOF is viable."""
    out = []
    def rec(seq, state):
        # complete the prefix with EOF
        r = Viable.step(state, 'EOF')
        out.append((seq, 'accept' if r == 'ACCEPT' else 'reject'))
        if len(seq) >= maxlen:
            return
        for k in KINDS[:-1]:
            ns = Viable.step(state, k)
            if ns is None or k == 'GARBAGE':
                out.append((seq + [k], 'invalid'))       # one-token invalid extension
            else:
                rec(seq + [k], ns)
    rec([], Viable.START)
    return out

# ------------------------------------------------------------------ spellings

WS = [b' ', b'  ', b'\t', b'\n', b' \n ', b'\r\n', b'\f', b' /* c */ ', b' // c\n', b' # c\n', b'/**/', b'\n\n']
NAMES = [b'a', b'b', b'c', b'name', b'a-b', b'a_1', b'*', b'x*', b'Tr', b'truex', b'f', b'falsey', b'L', b'x', b'y', b'z', b'e1', b'N0']

def spell(rng, kind, names_used=None, for_array=None):
    if kind == 'BOOL':
        return rng.choice([b'true', b'false', b'TRUE', b'False', b'tRuE', b'FALSE'])
    if kind == 'INT':
        return rng.choice([b'0', b'1', b'-1', b'+5', b'42', b'007', b'010', b'2147483647', b'-2147483648', b'00', b'-0', b'123456'])
    if kind == 'INT64':
        return rng.choice([b'0L', b'5LL', b'-7L', b'2147483648', b'-2147483649', b'9223372036854775807', b'-9223372036854775808L',
                           b'017L', b'4294967296', b'10000000000LL'])
    if kind == 'HEX':
        return rng.choice([b'0x0', b'0xFF', b'0Xff', b'0x7fffffff', b'0xFFFFFFFF', b'0x80000000', b'0x001', b'0xaB'])
    if kind == 'HEX64':
        return rng.choice([b'0x0L', b'0xFFLL', b'0xFFFFFFFFFFFFFFFFL', b'0x100000000L', b'0X7fffffffffffffffL', b'0x8000000000000000LL'])
    if kind == 'FLOAT':
        return rng.choice([b'1.0', b'.5', b'5.', b'-.5', b'+1.5e3', b'1e10', b'1E-5', b'3.14159', b'-0.0', b'.', b'1.e2', b'.e1', b'2.5e+3', b'0.1',
                           b'123456789.125', b'1e308', b'4.9e-324', b'1e-400', b'00.5'])
    if kind == 'STRING':
        return rng.choice([b'""', b'"x"', b'"a b"', b'"\\n\\t\\r\\f"', b'"\\x41\\x7a"', b'"\\\\ \\""', b'"\\a\\b\\v"', b'"\\q"', b'"line1\nline2"',
                           b'"\\x4"', b'"\\xZZ"', b'"caf\xc3\xa9"', b'"three\nraw\nlines"', b'"a\n\n\n\nb"', b'"/* not a comment */"', b'"#x"', b'"\\x00tail"', b'"' + b'y' * 70 + b'"'])
    if kind == 'NAME':
        return rng.choice(NAMES)
    if kind == 'EQ':
        return rng.choice([b'=', b':'])
    if kind == 'GARBAGE':
        return rng.choice([b'@', b'!', b'$', b'%', b'&', b'\x01', b'\x7f', b'\x80', b'\xff', b'~', b'`', b'^', b'|', b'\\', b"'", b'?', b'<', b'>', b'-', b'+', b'_'])
    return {'LB': b'[', 'RB': b']', 'LP': b'(', 'RP': b')', 'COMMA': b',', 'LC': b'{', 'RC': b'}', 'SEMI': b';', 'EOF': b''}[kind]

# tokens that must be separated from a following token by white space / a delimiter
WORDY = {'BOOL', 'INT', 'HEX', 'INT64', 'HEX64', 'FLOAT', 'NAME'}

def render_tokens(rng, toks, vary=True):
    """text of a token-kind sequence; names are made distinct per group where the kind sequence allows it"""
    out = b''
    prev = None
    counter = [0]
    for k in toks:
        if k == 'EOF':
            break
        s = spell(rng, k)
        if k == 'NAME' and rng.chance(3, 4):
            counter[0] += 1
            s = rng.choice([b'n', b'k', b'v-', b'q_']) + str(counter[0]).encode()
        sep = b''
        if prev is not None:
            need = (prev in WORDY and (k in WORDY or k == 'GARBAGE')) or (prev == 'GARBAGE')
            if need or (vary and rng.chance(1, 2)):
                sep = rng.choice(WS) if vary else b' '
        out += sep + s
        prev = k
    if vary and rng.chance(1, 3):
        out += rng.choice(WS)
    return out

# ------------------------------------------------------------------ random valid trees -> text

def rand_value(rng, depth, in_array_of=None):
    if in_array_of is not None:
        k = in_array_of
    else:
        k = rng.weighted([('BOOL', 2), ('INT', 4), ('HEX', 2), ('INT64', 2), ('HEX64', 1), ('FLOAT', 3), ('STRING', 4),
                          ('array', 3 if depth < 5 else 0), ('list', 3 if depth < 5 else 0), ('group', 3 if depth < 5 else 0)])
    if k in SCALARS:
        toks = [k]
        if k == 'STRING':
            toks += ['STRING'] * rng.weighted([(0, 6), (1, 2), (2, 1)])
        return toks
    if k == 'array':
        n = rng.weighted([(0, 2), (1, 2), (2, 3), (3, 2), (17, 1), (33, 1)])
        ek = rng.choice(['BOOL', 'INT', 'FLOAT', 'STRING', 'HEX', 'INT64'])
        toks = ['LB']
        for i in range(n):
            # INT and HEX share the element type int, INT64 and HEX64 share int64
            kk = ek
            if ek == 'INT' and rng.chance(1, 4): kk = 'HEX'
            if ek == 'INT64' and rng.chance(1, 4): kk = 'HEX64'
            toks += rand_value(rng, depth + 1, kk)
            if i < n - 1 or rng.chance(1, 5):
                toks.append('COMMA')
        return toks + ['RB']
    if k == 'list':
        n = rng.weighted([(0, 2), (1, 2), (2, 3), (3, 2), (17, 1)])
        toks = ['LP']
        for i in range(n):
            toks += rand_value(rng, depth + 1)
            if i < n - 1 or rng.chance(1, 5):
                toks.append('COMMA')
        return toks + ['RP']
    n = rng.weighted([(0, 2), (1, 3), (2, 3), (4, 2), (18, 1)])
    return ['LC'] + rand_settings(rng, depth + 1, n) + ['RC']

def rand_settings(rng, depth, n):
    toks = []
    for _ in range(n):
        toks += ['NAME', 'EQ'] + rand_value(rng, depth)
        t = rng.weighted([('SEMI', 5), ('COMMA', 1), (None, 2)])
        if t:
            toks.append(t)
    return toks

def rand_valid_text(rng):
    toks = rand_settings(rng, 0, rng.weighted([(0, 1), (1, 3), (2, 3), (4, 3), (8, 1), (20, 1)]))
    return render_tokens(rng, toks)

def mutate(rng, text):
    """byte-level mutations of a text (C03)"""
    b = bytearray(text)
    for _ in range(rng.range(1, 4)):
        m = rng.below(9)
        pos = rng.below(len(b) + 1)
        if m == 0 and b:
            del b[rng.below(len(b))]
        elif m == 1:
            b.insert(pos, rng.range(0, 255))
        elif m == 2 and b:
            b[rng.below(len(b))] = rng.choice([0, 34, 92, 10, 64, 123, 125, 40, 41, 91, 93, 255, 128, 47, 42, 35])
        elif m == 3:
            b[pos:pos] = rng.choice([b'"', b'/*', b'*/', b'//', b'#', b'\\', b'@include "', b'\n@include "nofile"\n', b'{', b'(', b'[', b'\x00',
                                     b'0x', b'1e', b'L', b'\\x', b'"\\', b'= =', b'a = ', b';;', b'\n\n\n'])
        elif m == 4 and len(b) > 2:
            i = rng.below(len(b)); j = min(len(b), i + rng.range(1, 20)); del b[i:j]
        elif m == 5 and len(b) > 2:
            i = rng.below(len(b)); j = min(len(b), i + rng.range(1, 20)); b[pos:pos] = b[i:j]
        elif m == 6:
            b = b[:pos]
        elif m == 7:
            b[pos:pos] = bytes([rng.range(1, 255)]) * rng.choice([1, 2, 64, 65])
        elif m == 8:
            b[pos:pos] = rng.choice([b'((((((((((', b'{a={a={a={a=', b'[[[[', b'))))', b'}}}}'])
    return bytes(b)

# ------------------------------------------------------------------ numeric literals (C08)

def numeric_literals(rng, n):
    out = []
    bounds = [2**31, 2**32, 2**63, 2**64, 2**31 - 1, 2**63 - 1, 2**24 + 1, 2**53 + 1, 0, 1, 7, 8, 9, 63, 64]
    for _ in range(n):
        c = rng.below(8)
        v = rng.choice(bounds) + rng.range(-2, 2)
        v = abs(v)
        sign = rng.choice([b'', b'', b'-', b'+'])
        zeros = b'0' * rng.weighted([(0, 6), (1, 2), (2, 1), (3, 1)])
        suf = rng.choice([b'', b'', b'L', b'LL'])
        if c == 0:
            out.append(sign + zeros + str(v).encode() + suf)
        elif c == 1:
            out.append(sign + b'0' + oct(v)[2:].encode() + suf)
        elif c == 2:
            h = ('%x' % v) if rng.chance(1, 2) else ('%X' % v)
            out.append(rng.choice([b'0x', b'0X']) + zeros + h.encode() + suf)
        elif c == 3:
            nd = rng.range(1, 20)
            out.append(b'0x' + bytes(rng.choice(b'0123456789abcdefABCDEF') for _ in range(nd)) + suf)
        elif c == 4:
            nd = rng.range(1, 22)
            out.append(sign + bytes(rng.choice(b'0123456789') for _ in range(nd)) + suf)
        elif c == 5:
            # floats: point and exponent-only forms, extreme exponents
            mant = bytes(rng.choice(b'0123456789') for _ in range(rng.weighted([(1, 3), (5, 3), (17, 2), (30, 1), (200, 1)])))
            frac = bytes(rng.choice(b'0123456789') for _ in range(rng.weighted([(0, 2), (1, 2), (6, 2), (20, 1), (300, 1)])))
            ex = rng.choice([-400, -330, -324, -323, -308, -307, -20, -5, -1, 0, 1, 5, 15, 22, 23, 100, 307, 308, 309, 400])
            form = rng.below(4)
            if form == 0:
                out.append(sign + mant + b'.' + frac)
            elif form == 1:
                out.append(sign + mant + b'e' + str(ex).encode())
            elif form == 2:
                out.append(sign + mant + b'.' + frac + rng.choice([b'e', b'E']) + (b'+' if ex >= 0 and rng.chance(1, 2) else b'') + str(ex).encode())
            else:
                out.append(sign + b'.' + (frac or b'5') + b'e' + str(ex).encode())
        elif c == 6:
            # halfway / boundary decimal strings of doubles
            bits = rng.next() & 0x7FEFFFFFFFFFFFFF
            x = struct.unpack('<d', struct.pack('<Q', bits))[0]
            out.append(repr(x).encode() if 'e' in repr(x) or '.' in repr(x) else (repr(x) + '.0').encode())
        else:
            out.append(rng.choice([b'1.7976931348623157e308', b'1.7976931348623158e308', b'1.7976931348623159e308', b'1.8e308', b'4.9e-324', b'2.4703282292062327e-324',
                                   b'2.4703282292062328e-324', b'2.2250738585072011e-308', b'2.2250738585072014e-308', b'9007199254740993.0', b'9007199254740992.5',
                                   b'0.1', b'0.30000000000000004', b'5e-324', b'1e23', b'8.5', b'0.000001', b'123456789012345678901234567890.0', b'1e999', b'-1e999', b'1e-999']))
    return out

# ------------------------------------------------------------------ include forests (C10, C11)

def cut_into_files(rng, text, max_depth=4, prefix=b'f'):
    """Cut `text` at line boundaries into a tree of files.  Returns (top_text, {path: content}).
    Each include directive stands alone on its line; every file is newline-terminated or empty."""
    files = {}
    counter = [0]
    def cut(txt, depth):
        lines = txt.split(b'\n')
        if len(lines) < 3 or depth >= max_depth or rng.chance(1, 4):
            return txt
        i = rng.range(0, len(lines) - 2)
        j = rng.range(i + 1, len(lines) - 1)
        inner = b'\n'.join(lines[i:j]) + b'\n'
        counter[0] += 1
        name = prefix + str(counter[0]).encode() + b'.cfg'
        files[name] = cut(inner, depth + 1)
        head = b'\n'.join(lines[:i])
        tail = b'\n'.join(lines[j:])
        directive = rng.choice([b'@include "', b'  @include "', b'\t@include\t"', b'@include   "']) + name + b'"'
        pre = (cut(head + b'\n', depth + 1) if i > 0 else b'')
        return pre + directive + b'\n' + tail
    top = cut(text, 0)
    return top, files

# ------------------------------------------------------------------ semantic-aware rendering (C02 oracle)

ELEM_CLASS = {'BOOL': 'bool', 'INT': 'int', 'HEX': 'int', 'INT64': 'int64', 'HEX64': 'int64', 'FLOAT': 'float', 'STRING': 'string'}

def render_semantic(rng, toks, overrides, vary=True):
    """Render a token-kind sequence and predict, independently of the library and of the Lean model,
    the first semantic offence: returns (text, sem_error) with sem_error in {None, 'duplicate', 'mismatch'}
    and the index of the offending token."""
    out = b''
    prev = None
    stack = [{'kind': 'group', 'names': set()}]
    sem = None
    sem_at = None
    last_scalar_was_string = False
    for idx, k in enumerate(toks):
        if k == 'EOF':
            break
        s = spell(rng, k)
        if k == 'NAME':
            top = stack[-1]
            if top['kind'] == 'group':
                used = sorted(top['names'])
                if used and rng.chance(1, 6):
                    s = rng.choice(used)
                elif rng.chance(3, 4):
                    s = rng.choice([b'n', b'k', b'v-', b'q_']) + str(len(top['names'])).encode()
                if s in top['names'] and not overrides and sem is None:
                    sem, sem_at = 'duplicate', idx
                top['names'].add(s)
        if k in ('LB', 'LP', 'LC'):
            stack.append({'kind': {'LB': 'array', 'LP': 'list', 'LC': 'group'}[k], 'names': set(), 'etype': None})
        elif k in ('RB', 'RP', 'RC'):
            if len(stack) > 1:
                stack.pop()
        elif k in ELEM_CLASS and stack[-1]['kind'] == 'array':
            if not (k == 'STRING' and prev == 'STRING'):
                cls = ELEM_CLASS[k]
                if stack[-1]['etype'] is None:
                    stack[-1]['etype'] = cls
                elif stack[-1]['etype'] != cls and sem is None:
                    sem, sem_at = 'mismatch', idx
        sep = b''
        if prev is not None:
            need = (prev in WORDY and (k in WORDY or k == 'GARBAGE')) or (prev == 'GARBAGE')
            if need or (vary and rng.chance(1, 2)):
                sep = rng.choice(WS) if vary else b' '
        out += sep + s
        prev = k
    if vary and rng.chance(1, 3):
        out += rng.choice(WS)
    return out, sem, sem_at
