#!/bin/sh
# usage: confirm_mutant.sh <scratch-worktree> <mutant-dir>   (mutant-dir holds patch.diff, demo.sh, demo.c*)
# Confirms: applies, builds, the existing suite passes, the demo FAILS with the change and PASSES without it.
set -u
WT=$1; M=$2
cd "$WT" || exit 2
git checkout -q -- . ; git apply "$M/patch.diff" || { echo "APPLY-FAILED"; exit 2; }
cmake -G Ninja -B _build -DCMAKE_BUILD_TYPE=Release >/dev/null 2>&1 && cmake --build _build 2>&1 | grep -ci "warning" | sed 's/^/warnings: /'
ctest --test-dir _build 2>&1 | grep -E "tests passed|tests failed" | sed 's/^/suite-with-change: /'
sh "$M/demo.sh" >/tmp/confirm_with.txt 2>&1; echo "demo-with-change: rc=$? $(tail -1 /tmp/confirm_with.txt | cut -c1-120)"
git checkout -q -- .
sh "$M/demo.sh" >/tmp/confirm_without.txt 2>&1; echo "demo-without-change: rc=$? $(tail -1 /tmp/confirm_without.txt | cut -c1-120)"
rm -rf _build "$M/demo" 2>/dev/null
git status --short | grep -v "^?? out" | head -3
