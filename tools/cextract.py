"""Extraction helpers shared by translate.py: C arrays, #defines, switch cases."""
import re

def strip_comments(s):
    return re.sub(r'/\*.*?\*/', ' ', s, flags=re.S)

def c_array(src, name):
    """Return the integer initialiser list of `static const T name[...] = { ... } ;`"""
    m = re.search(r'static\s+const\s+[\w\s]+?\b' + re.escape(name) + r'\s*\[[^\]]*\]\s*=\s*\{(.*?)\}\s*;', src, flags=re.S)
    if not m:
        return None
    body = strip_comments(m.group(1))
    return [int(x) for x in re.findall(r'-?\d+', body)]

def c_define(src, name):
    """Last `#define name <int>` whose value is a plain integer (possibly parenthesised)."""
    vals = re.findall(r'^[ \t]*#[ \t]*define[ \t]+' + re.escape(name) + r'[ \t]+\(?(-?\d+)\)?[ \t]*$', src, flags=re.M)
    return int(vals[-1]) if vals else None

def normalise(code):
    code = re.sub(r'^\s*#line.*$', '', code, flags=re.M)
    code = strip_comments(code)
    code = re.sub(r'//.*$', '', code, flags=re.M)
    code = re.sub(r'\s+', ' ', code).strip()
    # remove spaces around punctuation so that harmless reformatting does not matter
    code = re.sub(r'\s*([(){};,=<>!&|+\-*/?:\[\]])\s*', r'\1', code)
    return code

def c_char_literal(lit):
    """Value of a C character literal body such as  a  \\n  \\"  \\\\ ."""
    esc = {'a':7,'b':8,'f':12,'n':10,'r':13,'t':9,'v':11,'\\':92,'"':34,"'":39,'0':0}
    if lit.startswith('\\'):
        return esc.get(lit[1:], None)
    if len(lit) == 1:
        return ord(lit)
    return None
