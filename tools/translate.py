#!/usr/bin/env python3
"""Regenerate lean/LibconfigModel/Generated/*.lean from /repo's current working tree.

  ScannerTables.lean  flex tables, constants and the recognised action of every rule
  ParserTables.lean   bison tables, constants and the recognised action of every rule
  Constants.lean      source constants evaluated by the C compiler
  Inventory.lean      allocation-site, static-object and libc-import inventories

Output is byte-identical when the sources are unchanged (so lake does not rebuild).
A construct that cannot be classified is emitted as `unknown`/0 — never an error
here; the theorems that need it then fail to build and check.py decides.
"""
import os, re, subprocess, sys, json, tempfile, shutil
sys.path.insert(0, os.path.dirname(os.path.abspath(__file__)))
from cextract import *

REPO = os.environ.get('VERIF_REPO', '/repo')
VERIF = os.path.dirname(os.path.dirname(os.path.abspath(__file__)))
OUT = os.path.join(os.environ.get('VERIF_LEAN') or os.path.join(VERIF, 'lean'), 'LibconfigModel', 'Generated')

def tab(vals):
    if vals is None:
        return '⟨0, 0⟩'
    bits = 0
    for i, v in enumerate(vals):
        assert -32768 <= v < 32768
        bits |= (v + 32768) << (16 * i)
    return '⟨%d, 0x%x⟩' % (len(vals), bits)

def write_if_changed(path, text):
    old = open(path).read() if os.path.exists(path) else None
    if old != text:
        os.makedirs(os.path.dirname(path), exist_ok=True)
        open(path, 'w').write(text)

# ---------------------------------------------------------------- scanner

SCAN_INPUT_OVERRIDE = ("{errno=0;while(((result)=(int)fread((buf),1,(yy_size_t)(max_size),yyin))==0&&ferror(yyin))"
  "{if(errno!=EINTR){yyextra->input_error=1;break;}errno=0;clearerr(yyin);}"
  "if(((result)>0)&&ferror(yyin)&&(errno==EINTR))clearerr(yyin);}")
READ_INPUT_ERROR = "__config_set_error(config,CONFIG_ERR_FILE_IO,__io_error);r=1;"
SCAN_EOF_ACTION = ("{const char*error=NULL;FILE*fp;fp=libconfig_scanctx_next_include_file(yyextra,&error);"
  "if(fp){yyin=fp;yy_delete_buffer(YY_CURRENT_BUFFER,yyscanner);"
  "yy_switch_to_buffer(yy_create_buffer(yyin,YY_BUF_SIZE,yyscanner),yyscanner);}"
  "else if(error){yyextra->config->error_text=error;"
  "yyextra->config->error_file=libconfig_scanctx_current_filename(yyextra);"
  "yyextra->config->error_line=libconfig_yyget_lineno(yyscanner);return TOK_ERROR;}"
  "else{YY_BUFFER_STATE buf=(YY_BUFFER_STATE)libconfig_scanctx_pop_include(yyextra);"
  "if(buf){yy_delete_buffer(YY_CURRENT_BUFFER,yyscanner);yy_switch_to_buffer(buf,yyscanner);}"
  "else yyterminate();}}YY_BREAK")

SCAN_FIXED = {
 "{libconfig_scanctx_append_string(yyextra,yytext);}": ".appendText",
 "{char c=(char)(strtol(yytext+2,NULL,16)&0xFF);libconfig_scanctx_append_char(yyextra,c);}": ".appendHexChar",
 "{yylval->sval=libconfig_scanctx_take_string(yyextra);BEGIN INITIAL;return(TOK_STRING);}": ".endString {TOK_STRING}",
 ("{const char*error=NULL;const char*path=libconfig_scanctx_take_string(yyextra);"
  "FILE*fp=libconfig_scanctx_push_include(yyextra,(void*)YY_CURRENT_BUFFER,path,&error);__delete(path);"
  "if(fp){yyin=fp;yy_switch_to_buffer(yy_create_buffer(yyin,YY_BUF_SIZE,yyscanner),yyscanner);}"
  "else if(error){yyextra->config->error_text=error;"
  "yyextra->config->error_file=libconfig_scanctx_current_filename(yyextra);"
  "yyextra->config->error_line=libconfig_yyget_lineno(yyscanner);return TOK_ERROR;}BEGIN INITIAL;}"): ".includeDirective {TOK_ERROR}",
 "{yylval->sval=yytext;return(TOK_NAME);}": ".tokName {TOK_NAME}",
 ("{double fval=atof(yytext);if((fval>DBL_MAX)||(fval<-DBL_MAX))return(TOK_ERROR);"
  "yylval->fval=fval;return(TOK_FLOAT);}"): ".tokFloat {TOK_FLOAT} {TOK_ERROR}",
 ("{int ok;long long llval=libconfig_parse_integer(yytext,&ok);if(!ok)return(TOK_ERROR);"
  "if((llval<INT_MIN)||(llval>INT_MAX)){yylval->llval=llval;return(TOK_INTEGER64);}"
  "else{yylval->ival=(int)llval;return(TOK_INTEGER);}}"): ".tokInteger {TOK_INTEGER} {TOK_INTEGER64} {TOK_ERROR}",
 ("{int ok;long long llval=libconfig_parse_integer(yytext,&ok);if(!ok)return(TOK_ERROR);"
  "yylval->llval=llval;return(TOK_INTEGER64);}"): ".tokInteger64 {TOK_INTEGER64} {TOK_ERROR}",
 ("{int ok;unsigned long long ullval=libconfig_parse_hex64(yytext,&ok);"
  "if(!ok||(ullval>0xFFFFFFFFULL))return(TOK_ERROR);yylval->ival=(int)(unsigned int)ullval;return(TOK_HEX);}"): ".tokHex {TOK_HEX} {TOK_ERROR}",
 ("{int ok;unsigned long long ullval=libconfig_parse_hex64(yytext,&ok);if(!ok)return(TOK_ERROR);"
  "yylval->llval=(long long)ullval;return(TOK_HEX64);}"): ".tokHex64 {TOK_HEX64} {TOK_ERROR}",
}

def classify_scan_action(body, defines, toks):
    """body: normalised text between YY_RULE_SETUP and YY_BREAK."""
    def T(name):
        return toks.get(name, 0)
    if body == '{}':
        return '.ignore'
    m = re.fullmatch(r'\{BEGIN (\w+);\}', body)
    if m and m.group(1) in defines:
        return '.begin %d' % defines[m.group(1)]
    m = re.fullmatch(r"\{libconfig_scanctx_append_char\(yyextra,'(\\?.)'\);\}", body)
    if m:
        v = c_char_literal(m.group(1))
        if v is not None:
            return '.appendChar %d' % v
    m = re.fullmatch(r'\{return\((TOK_\w+)\);\}', body)
    if m and m.group(1) in toks:
        return '.tok %d' % T(m.group(1))
    m = re.fullmatch(r'\{yylval->ival=(\d+);return\((TOK_\w+)\);\}', body)
    if m and m.group(2) in toks:
        return '.tokBool %d %s' % (T(m.group(2)), m.group(1))
    if body in SCAN_FIXED:
        return re.sub(r'\{(TOK_\w+)\}', lambda mm: str(T(mm.group(1))), SCAN_FIXED[body])
    if body == 'ECHO;':
        return '.echo'
    return '.unknown'

def scanner_tables(toks):
    src = open(os.path.join(REPO, 'lib', 'scanner.c')).read()
    names = ['yy_accept', 'yy_ec', 'yy_meta', 'yy_base', 'yy_def', 'yy_nxt', 'yy_chk', 'yy_rule_can_match_eol']
    arr = {n: c_array(src, n) for n in names}
    num_rules = c_define(src, 'YY_NUM_RULES') or 0
    eob = c_define(src, 'YY_END_OF_BUFFER') or 0
    m = re.search(r'while\s*\(\s*yy_current_state\s*!=\s*(\d+)\s*\)', src)
    jam = int(m.group(1)) if m else 0
    m = re.search(r'if\s*\(\s*yy_current_state\s*>=\s*(\d+)\s*\)\s*yy_c\s*=\s*yy_meta', src)
    thr = int(m.group(1)) if m else 0
    m = re.search(r'yy_try_NUL_trans.*?YY_CHAR\s+yy_c\s*=\s*(\d+)\s*;', src, flags=re.S)
    nul = int(m.group(1)) if m else 0
    # YY_BUF_SIZE / YY_READ_BUF_SIZE: evaluate with the preprocessor (they depend on __ia64__)
    def pp_define(name):
        vals = re.findall(r'^#define ' + name + r' (\d+)\s*$', src, flags=re.M)
        return int(vals[-1]) if vals else 0   # the non-ia64 branch is the last one
    defines = {}
    for n in ['INITIAL', 'SINGLE_LINE_COMMENT', 'MULTI_LINE_COMMENT', 'STRING', 'INCLUDE']:
        v = c_define(src, n)
        if v is not None:
            defines[n] = v
    # action switch
    acts = {}
    eof_ok = False
    try:
        i = src.index('switch ( yy_act )')
        j = src.index('case YY_END_OF_BUFFER:', i)
        sw = src[i:j]
        for m in re.finditer(r'\ncase (\d+):(.*?)(?=\ncase |\n\tcase |\Z)', sw, flags=re.S):
            body = normalise(m.group(2))
            mm = re.fullmatch(r'(?:/\*.*?\*/)?YY_RULE_SETUP ?(.*?) ?YY_BREAK', body)
            acts[int(m.group(1))] = classify_scan_action(mm.group(1), defines, toks) if mm else '.unknown'
        m = re.search(r'case YY_STATE_EOF\(INITIAL\):\s*case YY_STATE_EOF\(SINGLE_LINE_COMMENT\):\s*'
                      r'case YY_STATE_EOF\(MULTI_LINE_COMMENT\):\s*case YY_STATE_EOF\(STRING\):\s*'
                      r'case YY_STATE_EOF\(INCLUDE\):(.*?)\ncase ', sw, flags=re.S)
        eof_ok = bool(m) and normalise(m.group(1)) == SCAN_EOF_ACTION
    except ValueError:
        pass
    # the YY_INPUT override (a failing fread is recorded and treated as end of input, no YY_FATAL_ERROR/exit)
    # and the place where __config_read turns the record into the I/O error
    input_ok = False
    try:
        k = src.index('#ifndef YY_INPUT')
        mm = None
        for mm in re.finditer(r'^#define YY_INPUT\(buf, ?result, ?max_size\)((?:.*\\\n)*.*\n)', src[:k], flags=re.M):
            pass
        lc = open(os.path.join(REPO, 'lib', 'libconfig.c')).read()
        m2 = re.search(r'if\(scan_ctx\.input_error\)\s*\{(.*?)\n  \}', lc, flags=re.S)
        input_ok = (mm is not None and normalise(mm.group(1).replace('\\\n', '\n')) == SCAN_INPUT_OVERRIDE
                    and m2 is not None and normalise(m2.group(1)) == READ_INPUT_ERROR
                    and lc.index('if(scan_ctx.input_error)') > lc.index('r = libconfig_yyparse(')
                    and lc.index('if(scan_ctx.input_error)') < lc.index('libconfig_yylex_destroy(scanner);'))
    except (ValueError, OSError):
        pass
    n_acts = max([num_rules] + list(acts.keys()))
    act_list = [".unknown"] + [acts.get(r, ".unknown") for r in range(1, n_acts + 1)]
    L = []
    L.append('import LibconfigModel.TableTypes')
    L.append('/- GENERATED by tools/translate.py from lib/scanner.c — do not edit. -/')
    L.append('namespace Libconfig.Generated')
    L.append('')
    L.append('def scanner : FlexTables := {')
    L.append('  accept := %s' % tab(arr['yy_accept']))
    L.append('  ec := %s' % tab(arr['yy_ec']))
    L.append('  metaT := %s' % tab(arr['yy_meta']))
    L.append('  base := %s' % tab(arr['yy_base']))
    L.append('  deflt := %s' % tab(arr['yy_def']))
    L.append('  nxt := %s' % tab(arr['yy_nxt']))
    L.append('  chk := %s' % tab(arr['yy_chk']))
    L.append('  canMatchEol := %s' % tab(arr['yy_rule_can_match_eol']))
    L.append('  jamState := %d' % jam)
    L.append('  metaThreshold := %d' % thr)
    L.append('  numRules := %d' % num_rules)
    L.append('  endOfBuffer := %d' % eob)
    L.append('  nulClass := %d' % nul)
    L.append('  bufSize := %d' % pp_define('YY_BUF_SIZE'))
    L.append('  readBufSize := %d' % pp_define('YY_READ_BUF_SIZE'))
    L.append('  eofActionKnown := %s }' % ('true' if eof_ok else 'false'))
    L.append('')
    L.append('/-- action of rule `i` (index 0 unused; the last entry is flex\'s default rule) -/')
    L.append('def scanActions : List ScanAct := [')
    L.append(',\n'.join('  %s' % a for a in act_list))
    L.append(']')
    L.append('')
    for n in ['INITIAL', 'SINGLE_LINE_COMMENT', 'MULTI_LINE_COMMENT', 'STRING', 'INCLUDE']:
        L.append('def SC_%s : Nat := %d' % (n, defines.get(n, 99)))
    L.append('')
    L.append('/-- scanner.c carries the catalogued YY_INPUT override (a failing `fread` sets `input_error` and ends the')
    L.append('input; flex\'s default would call YY_FATAL_ERROR, i.e. exit) and `__config_read` turns the record into')
    L.append('the file I/O error after the parse -/')
    L.append('def inputErrorHandled : Bool := %s' % ('true' if input_ok else 'false'))
    L.append('')
    L.append('end Libconfig.Generated')
    write_if_changed(os.path.join(OUT, 'ScannerTables.lean'), '\n'.join(L) + '\n')
    return {'rules': num_rules, 'unknown_actions': [i for i, a in enumerate(act_list) if a == '.unknown' and i > 0],
            'eof_action_known': eof_ok, 'input_error_handled': input_ok}

# ---------------------------------------------------------------- parser

def _elem(setter, val, fmt):
    s = ("{if(IN_ARRAY()||IN_LIST()){config_setting_t*e=config_setting_set_%s_elem(ctx->parent,-1,%s);"
         "if(!e){libconfig_yyerror(scanner,ctx,scan_ctx,err_array_elem_type);YYABORT;}"
         "else{%sCAPTURE_PARSE_POS(e);}}") % (setter, val, ('config_setting_set_format(e,%s);' % fmt) if fmt else '')
    return s

def _agg(ty):
    return ("{if(IN_LIST()){ctx->parent=config_setting_add(ctx->parent,NULL,CONFIG_TYPE_%s);CAPTURE_PARSE_POS(ctx->parent);}"
            "else{ctx->setting->type=CONFIG_TYPE_%s;ctx->parent=ctx->setting;ctx->setting=NULL;}}break;") % (ty, ty)

PARSE_CATALOGUE = {
 # keyed by (rule comment, normalised body)
 ('$@1: %empty',
  "{ctx->setting=config_setting_add(ctx->parent,(yyvsp[0].sval),CONFIG_TYPE_NONE);"
  "if(ctx->setting==NULL){libconfig_yyerror(scanner,ctx,scan_ctx,err_duplicate_setting);YYABORT;}"
  "else{CAPTURE_PARSE_POS(ctx->setting);}}break;"): '.settingName',
 ('$@2: %empty', _agg('ARRAY')): '.arrayStart',
 ('$@3: %empty', _agg('LIST')): '.listStart',
 ('$@4: %empty', _agg('GROUP')): '.groupStart',
 ('array: TOK_ARRAY_START $@2 simple_value_list_optional TOK_ARRAY_END',
  "{if(ctx->parent)ctx->parent=ctx->parent->parent;}break;"): '.aggEnd',
 ('list: TOK_LIST_START $@3 value_list_optional TOK_LIST_END',
  "{if(ctx->parent)ctx->parent=ctx->parent->parent;}break;"): '.aggEnd',
 ('group: TOK_GROUP_START $@4 setting_list_optional TOK_GROUP_END',
  "{if(ctx->parent)ctx->parent=ctx->parent->parent;}break;"): '.aggEnd',
 ('string: TOK_STRING',
  "{libconfig_parsectx_append_string(ctx,(yyvsp[0].sval));free((yyvsp[0].sval));}break;"): '.stringFirst',
 ('string: string TOK_STRING',
  "{libconfig_parsectx_append_string(ctx,(yyvsp[0].sval));free((yyvsp[0].sval));}break;"): '.stringNext',
 ('simple_value: TOK_BOOLEAN',
  _elem('bool', '(int)(yyvsp[0].ival)', None) + "else config_setting_set_bool(ctx->setting,(int)(yyvsp[0].ival));}break;"): '.valBool',
 ('simple_value: TOK_INTEGER',
  _elem('int', '(yyvsp[0].ival)', 'CONFIG_FORMAT_DEFAULT') +
  "else{config_setting_set_int(ctx->setting,(yyvsp[0].ival));config_setting_set_format(ctx->setting,CONFIG_FORMAT_DEFAULT);}}break;"): '.valInt',
 ('simple_value: TOK_INTEGER64',
  _elem('int64', '(yyvsp[0].llval)', 'CONFIG_FORMAT_DEFAULT') +
  "else{config_setting_set_int64(ctx->setting,(yyvsp[0].llval));config_setting_set_format(ctx->setting,CONFIG_FORMAT_DEFAULT);}}break;"): '.valInt64',
 ('simple_value: TOK_HEX',
  _elem('int', '(yyvsp[0].ival)', 'CONFIG_FORMAT_HEX') +
  "else{config_setting_set_int(ctx->setting,(yyvsp[0].ival));config_setting_set_format(ctx->setting,CONFIG_FORMAT_HEX);}}break;"): '.valHex',
 ('simple_value: TOK_HEX64',
  _elem('int64', '(yyvsp[0].llval)', 'CONFIG_FORMAT_HEX') +
  "else{config_setting_set_int64(ctx->setting,(yyvsp[0].llval));config_setting_set_format(ctx->setting,CONFIG_FORMAT_HEX);}}break;"): '.valHex64',
 ('simple_value: TOK_FLOAT',
  _elem('float', '(yyvsp[0].fval)', None) + "else config_setting_set_float(ctx->setting,(yyvsp[0].fval));}break;"): '.valFloat',
 ('simple_value: string',
  "{if(IN_ARRAY()||IN_LIST()){const char*s=libconfig_parsectx_take_string(ctx);"
  "config_setting_t*e=config_setting_set_string_elem(ctx->parent,-1,s);__delete(s);"
  "if(!e){libconfig_yyerror(scanner,ctx,scan_ctx,err_array_elem_type);YYABORT;}else{CAPTURE_PARSE_POS(e);}}"
  "else{const char*s=libconfig_parsectx_take_string(ctx);config_setting_set_string(ctx->setting,s);__delete(s);}}break;"): '.valString',
}

PARSE_MACROS = {
 'IN_ARRAY': "(ctx->parent&&(ctx->parent->type==CONFIG_TYPE_ARRAY))",
 'IN_LIST': "(ctx->parent&&(ctx->parent->type==CONFIG_TYPE_LIST))",
 'CAPTURE_PARSE_POS': "capture_parse_pos(scanner,scan_ctx,(S))",
}
PARSE_HELPERS = {
 'capture_parse_pos': ("{setting->line=(unsigned int)libconfig_yyget_lineno(scanner);"
                       "setting->file=libconfig_scanctx_current_filename(scan_ctx);}"),
 'libconfig_yyerror': ("{if(ctx->config->error_text)return;ctx->config->error_line=libconfig_yyget_lineno(scanner);"
                       "ctx->config->error_text=s;}"),
}

def parser_tables():
    src = open(os.path.join(REPO, 'lib', 'grammar.c')).read()
    hdr = open(os.path.join(REPO, 'lib', 'grammar.h')).read()
    toks = {k: int(v) for k, v in re.findall(r'^\s+(TOK_\w+) = (\d+)', hdr, flags=re.M)}
    names = ['yytranslate', 'yypact', 'yydefact', 'yypgoto', 'yydefgoto', 'yytable', 'yycheck', 'yystos', 'yyr1', 'yyr2']
    arr = {n: c_array(src, n) for n in names}
    D = {n: c_define(src, n) for n in ['YYFINAL', 'YYLAST', 'YYNTOKENS', 'YYNSTATES', 'YYNRULES', 'YYMAXUTOK',
                                         'YYPACT_NINF', 'YYTABLE_NINF', 'YYINITDEPTH', 'YYMAXDEPTH']}
    nrules = D['YYNRULES'] or 0
    # `#define yytable_value_is_error(Yyn) 0` means the table holds no error entries
    mm = re.search(r'#define yytable_value_is_error\(Yyn\)\s*\\\n\s*(.*)', src)
    if mm and normalise(mm.group(1)) == '0':
        D['YYTABLE_NINF'] = -32768
    acts = {}
    helpers_ok = True
    try:
        i = src.index('switch (yyn)')
        j = src.index('default: break;', i)
        sw = src[i:j]
        for m in re.finditer(r'\n\s*case (\d+): /\* (.*?) \*/(.*?)(?=\n\s*case \d+:|\Z)', sw, flags=re.S):
            key = (m.group(2).strip(), normalise(m.group(3)))
            acts[int(m.group(1))] = PARSE_CATALOGUE.get(key, '.unknown')
        # helper macros and functions the action texts rely on
        for name, want in PARSE_MACROS.items():
            mm = re.search(r'#define ' + name + r'\((?:S)?\)\s*\\\n(.*)', src)
            if not mm or normalise(mm.group(1)) != want:
                helpers_ok = False
        for name, want in PARSE_HELPERS.items():
            mm = re.search(r'\b' + name + r'\s*\([^)]*\)\s*(\{.*?\n\})', src, flags=re.S)
            if not mm or normalise(mm.group(1)) != want:
                helpers_ok = False
    except ValueError:
        helpers_ok = False
    # symbols with a destructor: cases of the switch in yydestruct
    dsyms = []
    m = re.search(r'yydestruct \(const char.*?switch \(yykind\)(.*?)default:', src, flags=re.S)
    if m:
        for nm in re.findall(r'case YYSYMBOL_(\w+):', m.group(1)):
            mm = re.search(r'YYSYMBOL_' + nm + r' = (\d+)', src)
            if mm:
                dsyms.append(int(mm.group(1)))
    act_list = [acts.get(r, '.none') for r in range(0, nrules + 1)]
    # an action that exists but was not recognised is `.unknown`; a recognised rule without action is `.none`
    L = []
    L.append('import LibconfigModel.TableTypes')
    L.append('/- GENERATED by tools/translate.py from lib/grammar.c and lib/grammar.h — do not edit. -/')
    L.append('namespace Libconfig.Generated')
    L.append('')
    L.append('def parser : LalrTables := {')
    for fld, n in [('translate', 'yytranslate'), ('pact', 'yypact'), ('defact', 'yydefact'), ('pgoto', 'yypgoto'),
                   ('defgoto', 'yydefgoto'), ('table', 'yytable'), ('check', 'yycheck'), ('stos', 'yystos'),
                   ('r1', 'yyr1'), ('r2', 'yyr2')]:
        L.append('  %s := %s' % (fld, tab(arr[n])))
    for fld, n in [('final', 'YYFINAL'), ('last', 'YYLAST'), ('ntokens', 'YYNTOKENS'), ('nstates', 'YYNSTATES'),
                   ('nrules', 'YYNRULES'), ('maxutok', 'YYMAXUTOK'), ('pactNinf', 'YYPACT_NINF'),
                   ('tableNinf', 'YYTABLE_NINF'), ('initDepth', 'YYINITDEPTH'), ('maxDepth', 'YYMAXDEPTH')]:
        v = D[n] if D[n] is not None else 0
        L.append('  %s := %s' % (fld, ('(%d)' % v) if v < 0 else str(v)))
    L.append('  destructorSyms := [%s] }' % ', '.join(map(str, dsyms)))
    L.append('')
    L.append('/-- action of grammar rule `i` (index 0 = the accept rule) -/')
    L.append('def parseActions : List ParseAct := [')
    L.append(',\n'.join('  %s' % a for a in act_list))
    L.append(']')
    L.append('')
    L.append('/-- the helper macros/functions used by the actions (IN_ARRAY, IN_LIST, CAPTURE_PARSE_POS,')
    L.append('capture_parse_pos, libconfig_yyerror) have their catalogued text -/')
    L.append('def parseHelpersKnown : Bool := %s' % ('true' if helpers_ok else 'false'))
    L.append('')
    order = ['BOOLEAN', 'INTEGER', 'HEX', 'INTEGER64', 'HEX64', 'FLOAT', 'STRING', 'NAME', 'EQUALS', 'NEWLINE',
             'ARRAY_START', 'ARRAY_END', 'LIST_START', 'LIST_END', 'COMMA', 'GROUP_START', 'GROUP_END',
             'SEMICOLON', 'GARBAGE', 'ERROR']
    L.append('def tokens : TokenNums := ⟨%s⟩' % ', '.join(str(toks.get('TOK_' + n, 0)) for n in order))
    L.append('')
    L.append('end Libconfig.Generated')
    write_if_changed(os.path.join(OUT, 'ParserTables.lean'), '\n'.join(L) + '\n')
    return toks, {'rules': nrules, 'unknown_actions': [i for i, a in enumerate(act_list) if a == '.unknown'],
                  'helpers_known': helpers_ok}

# ---------------------------------------------------------------- constants

CONST_PROBE = r'''
#include <stdio.h>
#include <float.h>
#define main libconfig_probe_unused_main
#include "%(lib)s/libconfig.c"
#undef CHUNK_SIZE
#undef main
static void s(const char *n, const char *v){ printf("S %%s ", n); for(; *v; ++v) printf("%%02x", (unsigned char)*v); printf("\n"); }
int main(void){
#ifdef PATH_TOKENS
  s("PATH_TOKENS", PATH_TOKENS);
#endif
#ifdef FLOAT_BUF_SIZE
  printf("I FLOAT_BUF_SIZE %%d\n", (int)(FLOAT_BUF_SIZE));
#endif
#ifdef DEFAULT_TAB_WIDTH
  printf("I DEFAULT_TAB_WIDTH %%d\n", (int)(DEFAULT_TAB_WIDTH));
#endif
#ifdef DEFAULT_FLOAT_PRECISION
  printf("I DEFAULT_FLOAT_PRECISION %%d\n", (int)(DEFAULT_FLOAT_PRECISION));
#endif
#ifdef MAX_INCLUDE_DEPTH
  printf("I MAX_INCLUDE_DEPTH %%d\n", (int)(MAX_INCLUDE_DEPTH));
#endif
#ifdef FILE_SEPARATOR
  s("FILE_SEPARATOR", FILE_SEPARATOR);
#endif
  printf("I CONFIG_TYPE_NONE %%d\nI CONFIG_TYPE_GROUP %%d\nI CONFIG_TYPE_INT %%d\nI CONFIG_TYPE_INT64 %%d\nI CONFIG_TYPE_FLOAT %%d\nI CONFIG_TYPE_STRING %%d\nI CONFIG_TYPE_BOOL %%d\nI CONFIG_TYPE_ARRAY %%d\nI CONFIG_TYPE_LIST %%d\n",
    CONFIG_TYPE_NONE, CONFIG_TYPE_GROUP, CONFIG_TYPE_INT, CONFIG_TYPE_INT64, CONFIG_TYPE_FLOAT, CONFIG_TYPE_STRING, CONFIG_TYPE_BOOL, CONFIG_TYPE_ARRAY, CONFIG_TYPE_LIST);
  printf("I CONFIG_FORMAT_DEFAULT %%d\nI CONFIG_FORMAT_HEX %%d\n", CONFIG_FORMAT_DEFAULT, CONFIG_FORMAT_HEX);
  printf("I CONFIG_OPTION_AUTOCONVERT %%d\nI CONFIG_OPTION_SEMICOLON_SEPARATORS %%d\nI CONFIG_OPTION_COLON_ASSIGNMENT_FOR_GROUPS %%d\nI CONFIG_OPTION_COLON_ASSIGNMENT_FOR_NON_GROUPS %%d\nI CONFIG_OPTION_OPEN_BRACE_ON_SEPARATE_LINE %%d\nI CONFIG_OPTION_ALLOW_SCIENTIFIC_NOTATION %%d\nI CONFIG_OPTION_FSYNC %%d\nI CONFIG_OPTION_ALLOW_OVERRIDES %%d\n",
    CONFIG_OPTION_AUTOCONVERT, CONFIG_OPTION_SEMICOLON_SEPARATORS, CONFIG_OPTION_COLON_ASSIGNMENT_FOR_GROUPS, CONFIG_OPTION_COLON_ASSIGNMENT_FOR_NON_GROUPS, CONFIG_OPTION_OPEN_BRACE_ON_SEPARATE_LINE, CONFIG_OPTION_ALLOW_SCIENTIFIC_NOTATION, CONFIG_OPTION_FSYNC, CONFIG_OPTION_ALLOW_OVERRIDES);
  printf("I CONFIG_ERR_NONE %%d\nI CONFIG_ERR_FILE_IO %%d\nI CONFIG_ERR_PARSE %%d\n", CONFIG_ERR_NONE, CONFIG_ERR_FILE_IO, CONFIG_ERR_PARSE);
  { config_t c; config_init(&c); printf("I INIT_OPTIONS %%d\nI INIT_TAB_WIDTH %%d\nI INIT_FLOAT_PRECISION %%d\nI INIT_DEFAULT_FORMAT %%d\n", c.options, c.tab_width, c.float_precision, c.default_format); config_destroy(&c); }
  s("IO_ERROR_TEXT", __io_error);
  return 0;
}
'''

# Functions with a finite domain, evaluated by the real code over their WHOLE domain (the probe #includes libconfig.c,
# so static functions are reachable); the Lean side proves the model equal to these tables for every argument.
FUNC_PROBE = r'''
#define _GNU_SOURCE
#include <stdio.h>
#include <string.h>
#define main libconfig_probe_unused_main
#include "%(lib)s/libconfig.c"
#undef main
int main(void){
  int c, t, f, a; char buf[4];
  printf("B NAME_FIRST 0");
  for(c = 1; c < 256; ++c){ buf[0] = (char)c; buf[1] = 0; printf(" %%d", __config_validate_name(buf) ? 1 : 0); }
  printf("\nB NAME_REST 0");
  for(c = 1; c < 256; ++c){ buf[0] = 'a'; buf[1] = (char)c; buf[2] = 0; printf(" %%d", __config_validate_name(buf) ? 1 : 0); }
  printf("\nB TYPE_SCALAR");
  for(t = 0; t <= 8; ++t) printf(" %%d", __config_type_is_scalar(t) ? 1 : 0);
  printf("\nB TYPE_AGGREGATE");
  for(t = 0; t <= 8; ++t){ config_setting_t st; memset(&st, 0, sizeof st); st.type = (short)t; printf(" %%d", config_setting_is_aggregate(&st) ? 1 : 0); }
  printf("\nB TYPE_NUMBER");
  for(t = 0; t <= 8; ++t){ config_setting_t st; memset(&st, 0, sizeof st); st.type = (short)t; printf(" %%d", config_setting_is_number(&st) ? 1 : 0); }
  /* config_setting_add(array, NULL, t2) on an empty array (a = 0) or an array whose first element has type a = 2..6 */
  printf("\nB ARRAY_ADD");
  for(a = 1; a <= 6; ++a) for(t = 0; t <= 8; ++t){
    config_t cf; config_setting_t *arr; config_init(&cf);
    arr = config_setting_add(config_root_setting(&cf), "a", CONFIG_TYPE_ARRAY);
    if(a >= 2) config_setting_add(arr, NULL, a);
    printf(" %%d", config_setting_add(arr, NULL, t) ? 1 : 0);
    config_destroy(&cf);
  }
  /* config_setting_set_format(setting of type t, f) */
  printf("\nB FORMAT_OK");
  for(t = 0; t <= 8; ++t) for(f = 0; f <= 3; ++f){
    config_t cf; config_setting_t *st; config_init(&cf);
    st = config_setting_add(config_root_setting(&cf), "x", t);
    printf(" %%d", (st && config_setting_set_format(st, (unsigned short)f)) ? 1 : 0);
    config_destroy(&cf);
  }
  /* the whole life of a format: default format d0 in force when config_setting_set_format(setting of type t, f) is called,
     default format d1 in force afterwards: 100*success + 10*(the format stored in the setting) + the effective format */
  printf("\nN FORMAT_EFFECT");
  for(t = 0; t <= 8; ++t) for(a = 0; a <= 1; ++a) for(f = 0; f <= 3; ++f) { int d1; for(d1 = 0; d1 <= 1; ++d1){
    config_t cf; config_setting_t *st; int ok = 0; config_init(&cf);
    st = config_setting_add(config_root_setting(&cf), "x", t);
    config_set_default_format(&cf, (short)a);
    if(st) ok = config_setting_set_format(st, (unsigned short)f);
    config_set_default_format(&cf, (short)d1);
    printf(" %%d", st ? (ok ? 100 : 0) + 10 * (int)st->format + (int)config_setting_get_format(st) : 999);
    config_destroy(&cf);
  } }
  /* typed lookups: stored type t = 0,2..6 (value 1 / 1.0 / "x" / true), requested kind k = int,int64,float,bool,string, auto-convert a */
  printf("\nB GET_OK");
  for(t = 0; t <= 8; ++t) for(f = 0; f < 5; ++f) for(a = 0; a <= 1; ++a){
    config_t cf; config_setting_t *st; int ok = 0; int iv; long long lv; double dv; const char *sv;
    config_init(&cf); config_set_option(&cf, CONFIG_OPTION_AUTOCONVERT, a);
    st = config_setting_add(config_root_setting(&cf), "x", t);
    if(st){
      if(t == CONFIG_TYPE_INT) config_setting_set_int(st, 1); else if(t == CONFIG_TYPE_INT64) config_setting_set_int64(st, 1);
      else if(t == CONFIG_TYPE_FLOAT) config_setting_set_float(st, 1.0); else if(t == CONFIG_TYPE_STRING) config_setting_set_string(st, "x");
      else if(t == CONFIG_TYPE_BOOL) config_setting_set_bool(st, 1);
      switch(f){
      case 0: ok = config_setting_lookup_int(config_root_setting(&cf), "x", &iv); break;
      case 1: ok = config_setting_lookup_int64(config_root_setting(&cf), "x", &lv); break;
      case 2: ok = config_setting_lookup_float(config_root_setting(&cf), "x", &dv); break;
      case 3: ok = config_setting_lookup_bool(config_root_setting(&cf), "x", &iv); break;
      default: ok = config_setting_lookup_string(config_root_setting(&cf), "x", &sv); break;
      }
    }
    printf(" %%d", ok ? 1 : 0);
    config_destroy(&cf);
  }
  /* typed assignment of the value 1 / 1.0 / "x": success flag and the setting's type afterwards */
  printf("\nN SET_RESULT");
  for(t = 0; t <= 8; ++t) for(f = 0; f < 5; ++f) for(a = 0; a <= 1; ++a){
    config_t cf; config_setting_t *st; int ok = 0;
    config_init(&cf); config_set_option(&cf, CONFIG_OPTION_AUTOCONVERT, a);
    st = config_setting_add(config_root_setting(&cf), "x", t);
    if(st){
      switch(f){
      case 0: ok = config_setting_set_int(st, 1); break;
      case 1: ok = config_setting_set_int64(st, 1); break;
      case 2: ok = config_setting_set_float(st, 1.0); break;
      case 3: ok = config_setting_set_bool(st, 1); break;
      default: ok = config_setting_set_string(st, "x"); break;
      }
    }
    printf(" %%d", (ok ? 100 : 0) + (st ? config_setting_type(st) : 99));
    config_destroy(&cf);
  }
  /* the scanner's \xHH escape for every spelling of two hex digits, with \x and \X: the byte stored (0 = the string ends there) */
  printf("\nN HEX_ESCAPE");
  { const char *hd = "0123456789abcdefABCDEF"; int i, j, x;
    for(x = 0; x < 2; ++x) for(i = 0; i < 22; ++i) for(j = 0; j < 22; ++j){
      config_t cf; char text[32]; const char *sv = NULL; config_init(&cf);
      snprintf(text, sizeof text, "s = \"\\%%c%%c%%cZ\";", x ? 'X' : 'x', hd[i], hd[j]);
      if(config_read_string(&cf, text) && config_lookup_string(&cf, "s", &sv) && sv) printf(" %%d", (int)(unsigned char)sv[0] + (sv[0] ? 1000 * (sv[1] == 'Z') : 0));
      else printf(" -1");
      config_destroy(&cf);
    } }
  /* config_set_option(o, flag) / config_get_option on the initial option word, for each of the 32 bit positions */
  printf("\nN OPTION_SET");
  { int bit, fl; for(bit = 0; bit < 32; ++bit) for(fl = 0; fl <= 1; ++fl){
      config_t cf; config_init(&cf); config_set_option(&cf, (int)(1u << bit), fl);
      printf(" %%u", (unsigned)config_get_options(&cf)); config_destroy(&cf); } }
  /* config_set_tab_width / config_set_float_precision over all unsigned short arguments */
  { config_t cf; int w; config_init(&cf);
    printf("\nV TAB_WIDTH");
    for(w = 0; w < 65536; ++w){ config_set_tab_width(&cf, (unsigned short)w); printf(" %%d", (int)config_get_tab_width(&cf)); }
    printf("\nV FLOAT_PRECISION");
    for(w = 0; w < 65536; ++w){ config_set_float_precision(&cf, (unsigned short)w); printf(" %%d", (int)config_get_float_precision(&cf)); }
    config_destroy(&cf); }
  /* the writer's rendering of every one-byte string */
  printf("\n");
  for(c = 1; c < 256; ++c){
    config_t cf; config_setting_t *st; char *m = NULL; size_t l = 0; FILE *fp; char *q1, *q2;
    config_init(&cf); st = config_setting_add(config_root_setting(&cf), "s", CONFIG_TYPE_STRING);
    buf[0] = (char)c; buf[1] = 0; config_setting_set_string(st, buf);
    fp = open_memstream(&m, &l); config_write(&cf, fp); fclose(fp);
    q1 = strchr(m, 34); q2 = strrchr(m, 34);
    printf("E %%d ", c); if(q1 && q2 && q2 > q1) for(++q1; q1 < q2; ++q1) printf("%%02x", (unsigned char)*q1); printf("\n");
    free(m); config_destroy(&cf);
  }
  return 0;
}
'''

def function_tables():
    info = {}
    work = tempfile.mkdtemp(prefix='translate-', dir=os.environ.get('VERIF_WORK', os.path.join(VERIF, '.work')))
    tabs, runs, esc = {}, {}, {}
    try:
        src = os.path.join(work, 'fprobe.c')
        open(src, 'w').write(FUNC_PROBE % {'lib': os.path.join(REPO, 'lib')})
        exe = os.path.join(work, 'fprobe')
        libs = [os.path.join(REPO, 'lib', f) for f in ['scanner.c', 'grammar.c', 'scanctx.c', 'strbuf.c', 'strvec.c', 'util.c']]
        r = subprocess.run(['gcc', '-w', '-O0', '-o', exe, src] + libs +
                           ['-I' + os.path.join(REPO, 'lib'), '-DHAVE_USELOCALE', '-DHAVE_NEWLOCALE',
                            '-DHAVE_FREELOCALE', '-DLIBCONFIG_STATIC'], capture_output=True, text=True)
        if r.returncode == 0:
            out = subprocess.run([exe], capture_output=True, text=True, timeout=60).stdout
            for line in out.splitlines():
                p = line.split()
                if not p:
                    continue
                if p[0] == 'B':
                    tabs[p[1]] = [int(x) for x in p[2:]]
                elif p[0] == 'N':
                    nums = [int(x) for x in p[2:]]
                    tabs[p[1]] = nums
                elif p[0] == 'V':
                    # compress the full value table into maximal segments (lo, hi, identity?, constant)
                    v = [int(x) for x in p[2:]]
                    segs = []; i = 0
                    while i < len(v):
                        j = i
                        if v[i] == i:
                            while j + 1 < len(v) and v[j + 1] == j + 1:
                                j += 1
                            segs.append((i, j, 1, 0))
                        else:
                            while j + 1 < len(v) and v[j + 1] == v[i]:
                                j += 1
                            segs.append((i, j, 0, v[i]))
                        i = j + 1
                    runs[p[1]] = segs
                elif p[0] == 'E':
                    esc[int(p[1])] = list(bytes.fromhex(p[2] if len(p) > 2 else ''))
        else:
            info['_probe_error'] = r.stderr[-2000:]
    finally:
        shutil.rmtree(work, ignore_errors=True)
    L = ['import LibconfigModel.Basic',
         '/- GENERATED by tools/translate.py: functions of lib/libconfig.c with a finite domain, evaluated by the real',
         '   code over their whole domain — do not edit. -/',
         'namespace Libconfig.Generated', '']
    def boollist(name, doc):
        L.append('/-- %s -/' % doc)
        L.append('def %s : List Bool := [%s]' % (name, ', '.join('true' if b else 'false' for b in tabs.get(name.upper() if False else name, []))))
    for key, lname, doc in [
        ('NAME_FIRST', 'nameFirstTable', '`__config_validate_name` of the one-byte string `c` (index = byte; 0 = the empty string)'),
        ('NAME_REST', 'nameRestTable', '`__config_validate_name` of the two-byte string `a c` (index = byte; entry 0 unused)'),
        ('TYPE_SCALAR', 'typeScalarTable', '`__config_type_is_scalar(t)`, t = 0..8'),
        ('TYPE_AGGREGATE', 'typeAggregateTable', '`config_setting_is_aggregate` of a setting of type t = 0..8'),
        ('TYPE_NUMBER', 'typeNumberTable', '`config_setting_is_number` of a setting of type t = 0..8'),
        ('ARRAY_ADD', 'arrayAddTable', '`config_setting_add(array, NULL, t) != NULL` for an empty array (row 0) and an array whose first element has type 2..6 (rows 1..5); 9 columns t = 0..8'),
        ('FORMAT_OK', 'formatOkTable', '`config_setting_set_format(setting of type t, f)`, row t = 0..8, column f = 0..3'),
        ('GET_OK', 'getOkTable', 'result of `config_setting_lookup_<k>` on a member of type t holding 1 / 1.0 / "x" / true: index (t*5 + k)*2 + auto, t = 0..8, k = int,int64,float,bool,string')]:
        L.append('/-- %s -/' % doc)
        L.append('def %s : List Bool := [%s]' % (lname, ', '.join('true' if b else 'false' for b in tabs.get(key, []))))
    L.append('/-- the byte the scanner stores for `\\xHH` / `\\XHH` (+1000 when the rest of the literal follows it): index (x*22 + i)*22 + j over the digit alphabet 0-9a-fA-F; byte 0 ends the C string -/')
    L.append('def hexEscapeTable : List Int := [%s]' % ', '.join(map(str, tabs.get('HEX_ESCAPE', []))))
    L.append('/-- `config_setting_set_format(setting of type t, f)` called while the default format is d0, observed while it is d1: 100·success + 10·(format stored in the setting) + effective format; index ((t*2 + d0)*4 + f)*2 + d1 -/')
    L.append('def formatEffectTable : List Nat := [%s]' % ', '.join(map(str, tabs.get('FORMAT_EFFECT', []))))
    L.append('/-- `config_get_options` after `config_set_option(1 <<< bit, flag)` on a fresh configuration: index bit*2 + flag -/')
    L.append('def optionSetTable : List Nat := [%s]' % ', '.join(map(str, tabs.get('OPTION_SET', []))))
    L.append('/-- `config_setting_set_<k>(setting of type t, 1 / 1.0 / "x")`: 100·success + type afterwards, index (t*5 + k)*2 + auto -/')
    L.append('def setResultTable : List Nat := [%s]' % ', '.join(map(str, tabs.get('SET_RESULT', []))))
    for key, lname, doc in [('TAB_WIDTH', 'tabWidthSegs', '`config_set_tab_width(w)` then `config_get_tab_width`, for EVERY unsigned short `w`, as maximal segments (lo, hi, identity?, constant): on lo..hi the result is `w` itself or the constant'),
                            ('FLOAT_PRECISION', 'floatPrecisionSegs', '`config_set_float_precision(p)` then the getter, for every unsigned short `p`, same encoding')]:
        L.append('/-- %s -/' % doc)
        L.append('def %s : List (Nat × Nat × Bool × Nat) := [%s]' % (lname, ', '.join('(%d, %d, %s, %d)' % (a, b, 'true' if c else 'false', d) for a, b, c, d in runs.get(key, []))))
    L.append('/-- what `config_write` prints between the quotes for the one-byte string `c` (index c - 1, c = 1..255) -/')
    L.append('def writerEscapeTable : List Bytes := [%s]' % ', '.join('[%s]' % ', '.join(map(str, esc.get(c, []))) for c in range(1, 256)))
    L += ['', 'end Libconfig.Generated', '']
    write_if_changed(os.path.join(OUT, 'FunctionTables.lean'), '\n'.join(L))
    info['tables'] = {k: len(v) for k, v in tabs.items()}
    info['runs'] = {k: len(v) for k, v in runs.items()}
    info['escapes'] = len(esc)
    return info

# The generated control code that Flex.lean / Parser.lean model by hand (flex 2.6.4 and bison 3.8 skeletons): the
# matching loop, end-of-buffer handling, yy_get_next_buffer / yy_get_previous_state / yy_try_NUL_trans, the buffer
# management functions; yyparse without its action switch, yydestruct.  Their normalised text (comments, #line and
# white space removed) is compared with the text the models were written against (sha256).  Tables, rule actions and
# YY_INPUT are translated separately.
SKELETON_CATALOGUE = {
    'yylex_match_loop': '629c82a0fe88e308', 'yylex_end_of_buffer': '2e4da13797853a79', 'refill_and_state': '7f2f7ab81b6a4dfc',
    'buffers': 'f6637a1e869a7ef2', 'yyparse_skeleton': '46ded39f709ba369', 'yydestruct': '2db861c1565c1e95'}

def skeletons():
    import hashlib
    got = {}
    try:
        src = open(os.path.join(REPO, 'lib', 'scanner.c')).read()
        i = src.index('\nYY_DECL\n'); j = src.index('switch ( yy_act )', i)
        got['yylex_match_loop'] = src[i:j]
        k = src.index('case YY_END_OF_BUFFER:', j); e = src.index('/* end of yylex */', k)
        got['yylex_end_of_buffer'] = src[k:e]
        i = src.index('static int yy_get_next_buffer (yyscan_t yyscanner)'); j = src.index('#ifndef YY_NO_UNPUT', i)
        got['refill_and_state'] = src[i:j]
        i = src.index('    void yyrestart  (FILE * input_file , yyscan_t yyscanner)'); j = src.index('/** Get the user-defined data', i)
        got['buffers'] = src[i:j]
    except (ValueError, OSError):
        pass
    try:
        g = open(os.path.join(REPO, 'lib', 'grammar.c')).read()
        i = g.index('\nyyparse ('); a = g.index('switch (yyn)', i); b = g.index('default: break;', a)
        got['yyparse_skeleton'] = g[i:a] + g[b:]
        i = g.index('yydestruct (const char *yymsg'); j = g.index('\nyyparse (')
        got['yydestruct'] = g[i:j]
    except (ValueError, OSError):
        pass
    diff = [k for k, h in SKELETON_CATALOGUE.items()
            if k not in got or hashlib.sha256(normalise(got[k]).encode()).hexdigest()[:16] != h]
    sc_ok = not [k for k in diff if k in ('yylex_match_loop', 'yylex_end_of_buffer', 'refill_and_state', 'buffers')]
    pa_ok = not [k for k in diff if k in ('yyparse_skeleton', 'yydestruct')]
    L = ['/- GENERATED by tools/translate.py — do not edit.',
         '   Whether the generated control code of lib/scanner.c (flex skeleton: matching loop, end-of-buffer handling,',
         '   yy_get_next_buffer, yy_get_previous_state, yy_try_NUL_trans, buffer management) and of lib/grammar.c (bison',
         '   skeleton: yyparse without its action switch, yydestruct) still has the text that Flex.lean / Parser.lean /',
         '   Scanner.lean model by hand. -/',
         'namespace Libconfig.Generated', '',
         'def scannerSkeletonKnown : Bool := %s' % ('true' if sc_ok else 'false'),
         'def parserSkeletonKnown : Bool := %s' % ('true' if pa_ok else 'false'),
         '', 'end Libconfig.Generated', '']
    write_if_changed(os.path.join(OUT, 'Skeleton.lean'), '\n'.join(L))
    return {'changed_parts': diff}

def file_define(path, name):
    try:
        return c_define(open(os.path.join(REPO, 'lib', path)).read(), name)
    except OSError:
        return None

def constants():
    vals = {}
    work = tempfile.mkdtemp(prefix='translate-', dir=os.environ.get('VERIF_WORK', os.path.join(VERIF, '.work')))
    try:
        src = os.path.join(work, 'probe.c')
        open(src, 'w').write(CONST_PROBE % {'lib': os.path.join(REPO, 'lib')})
        exe = os.path.join(work, 'probe')
        libs = [os.path.join(REPO, 'lib', f) for f in
                ['scanner.c', 'grammar.c', 'scanctx.c', 'strbuf.c', 'strvec.c', 'util.c']]
        r = subprocess.run(['gcc', '-w', '-O0', '-o', exe, src] + libs +
                           ['-I' + os.path.join(REPO, 'lib'), '-DHAVE_USELOCALE', '-DHAVE_NEWLOCALE',
                            '-DHAVE_FREELOCALE', '-DLIBCONFIG_STATIC'], capture_output=True, text=True)
        if r.returncode == 0:
            out = subprocess.run([exe], capture_output=True, text=True, timeout=20).stdout
            for line in out.splitlines():
                p = line.split()
                if p[0] == 'I':
                    vals[p[1]] = int(p[2])
                elif p[0] == 'S':
                    vals[p[1]] = list(bytes.fromhex(p[2] if len(p) > 2 else ''))
        else:
            vals['_probe_error'] = r.stderr[-2000:]
    finally:
        shutil.rmtree(work, ignore_errors=True)
    # constants of other translation units (plain #defines)
    vals['LIST_CHUNK_SIZE'] = file_define('libconfig.c', 'CHUNK_SIZE') or 0
    vals['STRVEC_CHUNK_SIZE'] = file_define('strvec.c', 'CHUNK_SIZE') or 0
    vals['STRING_BLOCK_SIZE'] = file_define('strbuf.c', 'STRING_BLOCK_SIZE') or 0
    # error texts
    def text_of(path, var):
        try:
            m = re.search(r'static const char \*' + var + r'\s*=\s*"((?:[^"\\]|\\.)*)"', open(os.path.join(REPO, 'lib', path)).read())
            return list(m.group(1).encode().decode('unicode_escape').encode('latin-1')) if m else []
        except OSError:
            return []
    vals['ERR_BAD_INCLUDE'] = text_of('scanctx.c', 'err_bad_include')
    vals['ERR_INCLUDE_TOO_DEEP'] = text_of('scanctx.c', 'err_include_too_deep')
    vals['ERR_ARRAY_ELEM_TYPE'] = text_of('grammar.c', 'err_array_elem_type')
    vals['ERR_DUPLICATE_SETTING'] = text_of('grammar.c', 'err_duplicate_setting')
    g = open(os.path.join(REPO, 'lib', 'grammar.c')).read()
    vals['ERR_SYNTAX'] = list(b'syntax error') if 'YY_("syntax error")' in g else []
    vals['ERR_EXHAUSTED'] = list(b'memory exhausted') if 'YY_("memory exhausted")' in g else []
    L = ['import LibconfigModel.Basic',
         '/- GENERATED by tools/translate.py (constants evaluated by the C compiler from /repo/lib) — do not edit. -/',
         'namespace Libconfig.Generated', '']
    ints = ['FLOAT_BUF_SIZE', 'DEFAULT_TAB_WIDTH', 'DEFAULT_FLOAT_PRECISION', 'MAX_INCLUDE_DEPTH',
            'LIST_CHUNK_SIZE', 'STRVEC_CHUNK_SIZE', 'STRING_BLOCK_SIZE',
            'CONFIG_TYPE_NONE', 'CONFIG_TYPE_GROUP', 'CONFIG_TYPE_INT', 'CONFIG_TYPE_INT64', 'CONFIG_TYPE_FLOAT',
            'CONFIG_TYPE_STRING', 'CONFIG_TYPE_BOOL', 'CONFIG_TYPE_ARRAY', 'CONFIG_TYPE_LIST',
            'CONFIG_FORMAT_DEFAULT', 'CONFIG_FORMAT_HEX',
            'CONFIG_OPTION_AUTOCONVERT', 'CONFIG_OPTION_SEMICOLON_SEPARATORS', 'CONFIG_OPTION_COLON_ASSIGNMENT_FOR_GROUPS',
            'CONFIG_OPTION_COLON_ASSIGNMENT_FOR_NON_GROUPS', 'CONFIG_OPTION_OPEN_BRACE_ON_SEPARATE_LINE',
            'CONFIG_OPTION_ALLOW_SCIENTIFIC_NOTATION', 'CONFIG_OPTION_FSYNC', 'CONFIG_OPTION_ALLOW_OVERRIDES',
            'CONFIG_ERR_NONE', 'CONFIG_ERR_FILE_IO', 'CONFIG_ERR_PARSE',
            'INIT_OPTIONS', 'INIT_TAB_WIDTH', 'INIT_FLOAT_PRECISION', 'INIT_DEFAULT_FORMAT']
    for n in ints:
        L.append('def %s : Nat := %d' % (n, vals.get(n, 0) if isinstance(vals.get(n, 0), int) and vals.get(n, 0) >= 0 else 0))
    for n in ['PATH_TOKENS', 'FILE_SEPARATOR', 'IO_ERROR_TEXT', 'ERR_BAD_INCLUDE', 'ERR_INCLUDE_TOO_DEEP',
              'ERR_ARRAY_ELEM_TYPE', 'ERR_DUPLICATE_SETTING', 'ERR_SYNTAX', 'ERR_EXHAUSTED']:
        L.append('def %s : Bytes := [%s]' % (n, ', '.join(map(str, vals.get(n, [])))))
    L += ['', 'end Libconfig.Generated', '']
    write_if_changed(os.path.join(OUT, 'Constants.lean'), '\n'.join(L))
    return {k: v for k, v in vals.items() if k.startswith('_')}

def main():
    os.makedirs(os.path.join(VERIF, '.work'), exist_ok=True)
    toks, pinfo = parser_tables()
    sinfo = scanner_tables(toks)
    cinfo = constants()
    finfo = function_tables()
    info = {'scanner': sinfo, 'parser': pinfo, 'constants': cinfo, 'function_tables': finfo, 'skeletons': skeletons()}
    try:
        import inventory
        info['inventory'] = inventory.generate(REPO, OUT, write_if_changed)
    except ImportError:
        pass
    try:
        import ctranslate
        info['c_source'] = ctranslate.generate(REPO, OUT, write_if_changed)
    except ImportError:
        pass
    print(json.dumps(info))

if __name__ == '__main__':
    main()
