#!/usr/bin/env python3
# helper: prints the byte-class constants of ScanSpec.lean (literal 256-bit masks)
def mask(bs):
    m = 0
    for b in bs: m |= 1 << b
    return m
def rng(a, b): return list(range(ord(a), ord(b)+1))
ALL = list(range(256))
classes = [
 ("cAny",      "every byte (flex default rule)", ALL),
 ("cDot",      "`.` : every byte except \\n", [b for b in ALL if b != 10]),
 ("cNotQB",    "`[^\\\"\\\\]` : every byte except `\"` and `\\`", [b for b in ALL if b not in (34, 92)]),
 ("cNl",       "`\\n`", [10]),
 ("cCr",       "`\\r`", [13]),
 ("cFormFeed", "`\\f`", [12]),
 ("cBel",      "`\\a`", [7]),
 ("cBs",       "`\\b`", [8]),
 ("cVt",       "`\\v`", [11]),
 ("cSpTab",    "`[ \\t]`", [32, 9]),
 ("cHash",     "`#`", [35]),
 ("cSlash",    "`/`", [47]),
 ("cStar",     "`*`", [42]),
 ("cQuote",    "`\"`", [34]),
 ("cBackslash","`\\`", [92]),
 ("cAt",       "`@`", [64]),
 ("cEq",       "`=`", [61]),
 ("cColon",    "`:`", [58]),
 ("cComma",    "`,`", [44]),
 ("cLBrace",   "`{`", [123]),
 ("cRBrace",   "`}`", [125]),
 ("cLBrack",   "`[`", [91]),
 ("cRBrack",   "`]`", [93]),
 ("cLParen",   "`(`", [40]),
 ("cRParen",   "`)`", [41]),
 ("cSemi",     "`;`", [59]),
 ("cPeriod",   "`\\.` (a literal full stop)", [46]),
 ("cZero",     "`0`", [48]),
 ("cUpperL",   "`L`", [76]),
 ("cSign",     "`[-+]`", [45, 43]),
 ("cDigit",    "`[0-9]`", rng('0','9')),
 ("cHexDigit", "`[0-9A-Fa-f]`", rng('0','9')+rng('A','F')+rng('a','f')),
 ("cXx",       "`[Xx]`", [88, 120]),
 ("cEe",       "`[eE]`", [69, 101]),
 ("cNameStart","`[A-Za-z\\*]`", rng('A','Z')+rng('a','z')+[42]),
 ("cNameRest", "`[-A-Za-z0-9_\\*]`", rng('A','Z')+rng('a','z')+rng('0','9')+[45,95,42]),
 ("cTt", "`[Tt]`", [84,116]), ("cRr", "`[Rr]`", [82,114]), ("cUu", "`[Uu]`", [85,117]),
 ("cFf", "`[Ff]`", [70,102]), ("cAa", "`[Aa]`", [65,97]), ("cLl", "`[Ll]`", [76,108]),
 ("cSs", "`[Ss]`", [83,115]),
]
for ch in "abcdefilnrtuv":
    classes.append(("c_"+ch, "`%s`" % ch, [ord(ch)]))
for name, doc, bs in classes:
    print("/-- %s -/" % doc)
    print("def %s : Nat := 0x%x" % (name, mask(bs)))
