"""Seeded generator of API histories.  It drives the C harness interactively and keeps a
shadow of the tree's *shape* by parsing the harness's own `dump` answers, so that most
operations address existing settings with type-appropriate arguments while a separate
stream of malformed arguments exercises the failure paths."""
import struct
from vlib import Rng, hexs

INT_POOL = [0, 1, -1, 2, 7, 42, 255, 2**24 + 1, 2**31 - 1, 2**31 - 2, -2**31, -2**31 + 1, 65536, -65536]
INT64_POOL = INT_POOL + [2**31, -2**31 - 1, 2**32, 2**32 + 1, 2**53 + 1, -2**53 - 1, 2**63 - 1, -2**63, 2**62, 10**18]
VALID_NAMES = [b'a', b'b', b'c', b'ab', b'abc', b'a-b', b'a_b', b'a*', b'*', b'x1', b'X', b'Zz9', b'd', b'e', b'long-name_with*chars123',
               b'n0', b'n1', b'n2', b'n3', b'n4', b'n5', b'n6', b'n7', b'n8', b'n9', b'm0', b'm1', b'm2', b'm3', b'm4', b'm5']
INVALID_NAMES = [b'', b'1a', b'a b', b'a.b', b'-a', b'_a', b'a:b', b'a/b', b'\xc3\xa9', b'a\x7f', b'[0]', b'a[', b' a']
BOOL_NAMES = [b'true', b'false', b'TRUE', b'False']

def dbl_bits(x):
    return struct.unpack('<Q', struct.pack('<d', x))[0]

DBL_POOL = [dbl_bits(x) for x in [0.0, -0.0, 1.0, -1.0, 1.5, -2.5, 0.1, 1e10, 1e15 + 0.5, 123456789.125, 2.0**31, 2.0**31 - 1, -2.0**31, -2.0**31 - 1,
                                   2.0**63, -2.0**63, 2.0**53 + 2, 1e300, -1e300, 1.7976931348623157e308, 5e-324, 2.2250738585072014e-308,
                                   1e-5, 1e-4, 999999.5, 16777217.0, 3.999999999, -3.999999999, 0.5, 2147483647.9, -2147483648.9, 1e60, 2e60, -2e59, 1e22, 1e23,
                                   1.5e10, -2.5e-20, 1.25e100, 3.75e300, 1.5e-10, 6.02e20, 1.1e30, 9.99e-100, 1.5e-200, 1e10, 1e100,
                                   # values whose SHORT %g rendering rounds up past DBL_MAX (2e+308, 1.8e+308, 1.80e+308 ...) although
                                   # they are not DBL_MAX itself, and their neighbours that just do not
                                   1.5e308, 1.7e308, -1.7e308, 1.75e308, 1.795e308, 1.7976e308, 1.79769e308, 1.4e308, 9.99e307]]

class Shape:
    """shadow of one setting: type, name, children (from the harness's dump)"""
    __slots__ = ('name', 'ty', 'fmt', 'kids', 'hook')
    def __init__(self, name, ty, fmt, kids, hook):
        self.name, self.ty, self.fmt, self.kids, self.hook = name, ty, fmt, kids, hook

def parse_dump(line):
    i = line.find('root=')
    if i < 0:
        return None
    s = line[i + 5:]
    pos = [0]
    def node():
        assert s[pos[0]] == '('; pos[0] += 1
        def field():
            j = pos[0]
            while s[j] not in ',)':
                j += 1
            v = s[pos[0]:j]; pos[0] = j; return v
        name = field(); pos[0] += 1
        ty = int(field()); pos[0] += 1
        fmt = int(field()); pos[0] += 1
        kids = []
        if s[pos[0]] == '[':
            pos[0] += 1
            while s[pos[0]] != ']':
                kids.append(node())
                if s[pos[0]] == ',':
                    pos[0] += 1
            pos[0] += 1
        else:
            field()
        pos[0] += 1
        hook = int(field()); pos[0] += 1
        field(); pos[0] += 1
        field()
        assert s[pos[0]] == ')'; pos[0] += 1
        return Shape(None if name == '-' else (b'' if name == '=' else bytes.fromhex(name)), ty, fmt, kids, hook)
    try:
        return node()
    except Exception:
        return None

def all_paths(root):
    out = []
    def rec(n, p):
        out.append((p, n))
        for i, k in enumerate(n.kids):
            rec(k, p + [i])
    rec(root, [])
    return out

def pstr(p):
    return '/' if not p else ''.join('/%d' % i for i in p)

def rand_string(rng):
    n = rng.weighted([(0, 3), (1, 3), (rng.range(2, 20), 10), (63, 1), (64, 1), (65, 1), (127, 1), (128, 1), (129, 1), (300, 1)])
    mode = rng.below(4)
    if mode == 0:
        return bytes(rng.range(32, 126) for _ in range(n))
    if mode == 1:
        return bytes(rng.range(1, 255) for _ in range(n))
    if mode == 2:
        return bytes(rng.choice([34, 92, 10, 13, 12, 9, 7, 8, 11, 1, 31, 127, 128, 255, 65, 102, 120]) for _ in range(n))
    return bytes(rng.choice(b'abcXYZ012 \\"\n\t') for _ in range(n))

def rand_dbl(rng):
    if rng.chance(1, 2):
        return rng.choice(DBL_POOL)
    if rng.chance(1, 40):
        return rng.choice([0x7FF0000000000000, 0xFFF0000000000000, 0x7FF8000000000000])
    while True:
        b = rng.next()
        if (b >> 52) & 0x7FF != 0x7FF:
            return b

def rand_int(rng, wide):
    if rng.chance(2, 3):
        return rng.choice(INT64_POOL if wide else INT_POOL)
    if wide:
        return rng.range(-2**63, 2**63 - 1)
    return rng.range(-2**31, 2**31 - 1)

def lookup_paths(rng, root, base_path, base):
    """valid spellings and systematic corruptions of paths below `base`"""
    below = [(p, n) for p, n in all_paths(base) if p]
    out = []
    if not below:
        return [b'a', b'[0]', b'.', b'']
    p, n = rng.choice(below)
    seps = b'.:/'
    def spell(p, lead, force_index=False):
        cur = base; txt = b''
        for d, i in enumerate(p):
            k = cur.kids[i]
            sep = bytes([seps[rng.below(3)]])
            if d == 0 and not lead:
                sep = b''
            if k.name is not None and not force_index and rng.chance(3, 4):
                txt += sep + k.name
            else:
                txt += sep + b'[%d]' % i
            cur = k
        return txt
    good = spell(p, rng.chance(1, 2))
    out.append(good)
    out.append(spell(p, True, True))
    # corruptions
    c = rng.below(14)
    last = p[-1]
    par = base
    for i in p[:-1]:
        par = par.kids[i]
    pre = spell(p[:-1], False) if len(p) > 1 else b''
    sep = b'.' if pre else b''
    if c == 0: out.append(good + b'.')
    elif c == 1: out.append(good.replace(b'.', b'..', 1) if b'.' in good else b'.' + good + b'..x')
    elif c == 2: out.append(pre + sep + b'[%d]' % len(par.kids))
    elif c == 3: out.append(pre + sep + b'[%d]' % (last + 2**32))
    elif c == 4: out.append(pre + sep + b'[%d]' % (last - 2**32))
    elif c == 5: out.append(pre + sep + b'[-1]')
    elif c == 6: out.append(pre + sep + b'[%d' % last)
    elif c == 7: out.append(pre + sep + b'[ +%d]' % last)
    elif c == 8: out.append(pre + sep + b'[]')
    elif c == 9: out.append(pre + sep + b'[%d]' % 2**31)
    elif c == 10 and n.name: out.append(pre + sep + n.name[:-1])
    elif c == 11 and n.name: out.append(pre + sep + n.name + b'x')
    elif c == 12: out.append(good + b'.zz')
    elif c == 13: out.append(good + b'.[0]')
    return out

PROFILES = {
    # weights of op families
    'structure': dict(add=30, remove=8, remove_elem=8, set=10, set_elem=14, fmt=3, hook=2, cfgattr=4, clear=1, read=2, query=8, lookup=4, write=2, bad=6),
    'lookup':    dict(add=20, remove=2, remove_elem=2, set=2, set_elem=8, fmt=0, hook=0, cfgattr=1, clear=0, read=2, query=4, lookup=55, write=0, bad=2),
    'convert':   dict(add=10, remove=1, remove_elem=1, set=30, set_elem=14, fmt=3, hook=0, cfgattr=6, clear=0, read=1, query=30, lookup=2, write=0, bad=2),
    'hooks':     dict(add=22, remove=10, remove_elem=10, set=8, set_elem=8, fmt=0, hook=22, cfgattr=8, clear=3, read=4, query=2, lookup=0, write=0, bad=2),
    'write':     dict(add=22, remove=2, remove_elem=2, set=22, set_elem=14, fmt=6, hook=0, cfgattr=14, clear=0, read=1, query=0, lookup=0, write=16, bad=1),
}

READ_TEXTS = [b'a = 1; b = "x"; c = { d = [1,2]; e = (1, "s", {f=2.5;}); };', b'', b'x = (1, (2, (3)), [ ], { });',
              b'a = 1;\na = 2;', b'a = [1, "x"];', b'a = ', b'g = { h = { i = { j = 0x10; k = 5L; }; }; };',
              b'a : true, b : FALSE\nc = 1.5e3', b'/* c */ a = 1; // d\n# e\nb = 2;', b's = "a" "b"\n "c";']

def session(impl, rng, n_ops, profile, stats):
    W = PROFILES[profile]
    fams = [(k, v) for k, v in W.items() if v > 0]
    root = Shape(None, 1, 0, [], 0)
    next_hook = [1000]
    def resync():
        nonlocal root
        r = parse_dump(impl.do('dump'))
        if r is not None:
            root = r
    def count(k):
        stats[k] = stats.get(k, 0) + 1
    impl.do('init')
    if rng.chance(1, 3):
        impl.do('set_option 128 1')      # overrides
    if rng.chance(1, 2):
        impl.do('set_option 1 1')        # auto-convert
    if profile == 'hooks':
        impl.do('set_destructor 1')
    if profile == 'structure' and rng.chance(1, 3):
        # every type of parent (NONE placeholder, the five scalar types, the three aggregates; members of a group and
        # elements of a list) x named / unnamed child: only aggregates take children
        impl.do('add / %s 8' % hexs(b'plist'))
        for t in (0, 2, 3, 4, 5, 6, 1, 7, 8):
            impl.do('add / %s %d' % (hexs(b'p%d' % t), t)); impl.do('add /0 - %d' % t)
        for i in range(1, 10):
            for nm in (hexs(b'kid'), '-'):
                for ct in (2, 5, 1):
                    impl.do('add /%d %s %d' % (i, nm, ct)); impl.do('add /0/%d %s %d' % (i - 1, nm, ct))
            impl.do('length /%d' % i); impl.do('length /0/%d' % (i - 1))
        impl.do('wf'); impl.do('dump'); count('parent-type-grid')
        resync()
    for _ in range(n_ops):
        fam = rng.weighted(fams)
        paths = all_paths(root)
        aggs = [(p, n) for p, n in paths if n.ty in (1, 7, 8)]
        scalars = [(p, n) for p, n in paths if n.ty in (0, 2, 3, 4, 5, 6)]
        if fam == 'add' and scalars and rng.chance(1, 12):
            # a parent that is not an aggregate (a scalar, or a placeholder of type NONE): the call must fail and change nothing
            p, n = rng.choice(scalars)
            ty = rng.weighted([(1, 3), (2, 3), (5, 2), (7, 1), (8, 1), (0, 1)])
            out = impl.do('add %s %s %d' % (pstr(p), hexs(rng.choice([rng.choice(VALID_NAMES), None])), ty))
            count('add-under-non-aggregate:' + ('ok' if not out.startswith('null') else 'null'))
            impl.do('wf'); resync()
        elif fam == 'add':
            # bias toward shallow, not-too-wide parents but let some grow past 16/32 children
            p, n = rng.choice(aggs)
            if len(n.kids) > 40 and rng.chance(3, 4):
                p, n = rng.choice(aggs)
            if n.ty == 1:
                used = [k.name for k in n.kids]
                name = rng.weighted([(rng.choice(VALID_NAMES), 12), (rng.choice(used) if used else b'a', 3),
                                     (rng.choice(INVALID_NAMES), 2), (None, 1), (rng.choice(BOOL_NAMES), 1)])
            else:
                name = rng.weighted([(None, 6), (rng.choice(VALID_NAMES), 2), (rng.choice(INVALID_NAMES), 1)])
            if n.ty == 7 and n.kids and rng.chance(3, 4):
                ty = n.kids[0].ty
            else:
                ty = rng.weighted([(1, 5), (2, 6), (3, 4), (4, 4), (5, 5), (6, 3), (7, 4), (8, 4), (0, 2), (-1, 1), (9, 1)])
            out = impl.do('add %s %s %d' % (pstr(p), hexs(name), ty))
            count('add:' + ('ok' if not out.startswith('null') else 'null'))
            resync()
        elif fam == 'remove':
            p, n = rng.choice([(p, n) for p, n in aggs] or [([], root)])
            names = [k.name for k in n.kids if k.name]
            nm = rng.weighted([(rng.choice(names) if names else b'a', 8), (rng.choice(VALID_NAMES), 2), (None, 1), (b'', 1)] +
                              ([(x, 3) for x in lookup_paths(rng, root, p, n)[:2]]))
            out = impl.do('remove %s %s' % (pstr(p), hexs(nm)))
            count('remove:' + out[:1]); resync()
        elif fam == 'remove_elem':
            p, n = rng.choice(paths)
            idx = rng.weighted([(0, 3), (max(len(n.kids) - 1, 0), 3), (len(n.kids), 2), (rng.below(len(n.kids) + 1), 4), (2**32 - 1, 1)])
            out = impl.do('remove_elem %s %d' % (pstr(p), idx))
            count('remove_elem:' + out[:1]); resync()
        elif fam == 'set':
            p, n = rng.choice(scalars or paths)
            kind = rng.weighted([({0: 'int', 2: 'int', 3: 'int64', 4: 'float', 5: 'string', 6: 'bool'}.get(n.ty, 'int'), 6),
                                 (rng.choice(['int', 'int64', 'float', 'bool', 'string']), 4)])
            out = impl.do(set_op(rng, 'set_' + kind, pstr(p), kind))
            count('set_%s:%s' % (kind, out[:1]))
            if n.ty == 0:
                resync()
        elif fam == 'set_elem':
            cands = [(p, n) for p, n in paths if n.ty in (7, 8)] or paths
            p, n = rng.choice(cands)
            kind = rng.weighted([({2: 'int', 3: 'int64', 4: 'float', 5: 'string', 6: 'bool'}.get(n.kids[0].ty, 'int') if n.kids else 'int', 6),
                                 (rng.choice(['int', 'int64', 'float', 'bool', 'string']), 4)])
            idx = rng.weighted([(-1, 6), (0, 2), (max(len(n.kids) - 1, 0), 2), (len(n.kids), 1), (rng.below(len(n.kids) + 1), 2), (-5, 1)])
            out = impl.do(set_op(rng, 'set_%s_elem' % kind, '%s %d' % (pstr(p), idx), kind))
            count('set_%s_elem:%s' % (kind, 'null' if out == 'null' else 'ok')); resync()
        elif fam == 'fmt':
            p, n = rng.choice(paths)
            impl.do('set_format %s %d' % (pstr(p), rng.weighted([(0, 3), (1, 5), (2, 1), (65535, 1)]))); count('set_format')
            impl.do('get_format %s' % pstr(p))
        elif fam == 'hook':
            p, n = rng.choice(paths)
            h = rng.weighted([(next_hook[0], 8), (0, 1)])
            next_hook[0] += 1
            impl.do('set_hook %s %d' % (pstr(p), h)); count('set_hook')
            if rng.chance(1, 8):
                impl.do('set_destructor %d' % rng.below(2)); count('set_destructor')
        elif fam == 'cfgattr':
            op = rng.choice(['set_option %d %d' % (rng.choice([1, 2, 4, 8, 16, 32, 64, 128, 3, 0x30]), rng.below(2)),
                             'set_options %d' % rng.choice([0, 22, 255, 0x3e, 0x80000000, 0xffffffff, rng.below(256)]),
                             'set_tab_width %d' % rng.choice([0, 1, 2, 4, 8, 15, 16, 17, 255, 65535]),
                             'set_float_precision %d' % rng.choice([0, 1, 2, 6, 10, 15]),
                             'set_default_format %d' % rng.choice([0, 1, 0, 1, 2]),
                             'set_include_dir %s' % hexs(rng.choice([None, b'inc', b'', b'/abs/dir'])),
                             'set_config_hook %d' % rng.below(100),
                             'get_option %d' % rng.choice([1, 2, 4, 8, 16, 32, 64, 128, 3, 0])])
            impl.do(op); count(op.split()[0])
        elif fam == 'clear':
            impl.do(rng.weighted([('clear', 4), ('destroy', 1)])); count('clear'); resync()
            if profile == 'hooks':
                impl.do('set_destructor 1')
        elif fam == 'read':
            out = impl.do('read_string %s' % hexs(rng.choice(READ_TEXTS)))
            count('read_string:' + out[:1]); impl.do('err'); resync()
        elif fam == 'query':
            p, n = rng.choice(paths)
            q = rng.below(8)
            if q == 0:
                impl.do('get %s %s' % (rng.choice(['int', 'int64', 'float', 'bool', 'string']), pstr(p)))
            elif q == 1:
                impl.do('get_elem_val %s %s %d' % (rng.choice(['int', 'int64', 'float', 'bool', 'string']), pstr(p),
                                                     rng.choice([0, 1, len(n.kids), -1, max(len(n.kids) - 1, 0)])))
            elif q == 2:
                names = [k.name for k in n.kids if k.name] or [b'a']
                impl.do('lookup_val %s %s %s' % (rng.choice(['int', 'int64', 'float', 'bool', 'string']), pstr(p),
                                                 hexs(rng.weighted([(rng.choice(names), 6), (b'zz', 1), (None, 1)]))))
            elif q == 3:
                for txt in lookup_paths(rng, root, [], root)[:2]:
                    impl.do('clookup_val %s %s' % (rng.choice(['int', 'int64', 'float', 'bool', 'string']), hexs(txt)))
            elif q == 4:
                impl.do('length %s' % pstr(p)); impl.do('index %s' % pstr(p))
            elif q == 5:
                impl.do('info %s' % pstr(p))
            elif q == 6:
                impl.do('get_elem %s %d' % (pstr(p), rng.choice([0, len(n.kids), max(len(n.kids) - 1, 0), 2**32 - 1])))
            else:
                names = [k.name for k in n.kids if k.name] or [b'a']
                impl.do('get_member %s %s' % (pstr(p), hexs(rng.weighted([(rng.choice(names), 6), (b'zz', 1), (None, 1), (rng.choice(names)[:-1] or b'q', 1)]))))
            count('query')
        elif fam == 'lookup':
            p, n = rng.choice(aggs)
            for txt in lookup_paths(rng, root, p, n):
                out = impl.do('lookup %s %s' % (pstr(p), hexs(txt)))
                count('lookup:' + ('null' if out == 'null' else 'hit'))
        elif fam == 'write':
            impl.do('write'); count('write')
        elif fam == 'bad':
            # malformed stream: addresses that do not exist, wild arguments
            op = rng.choice(['add /99 %s 2' % hexs(b'a'), 'set_int /0/0/0/0/9 1', 'remove / %s' % hexs(b'.'), 'remove / %s' % hexs(b'a..b'),
                             'remove / %s' % hexs(b'[0]'), 'lookup / %s' % hexs(b'[[0]]'), 'lookup / %s' % hexs(b'[0]]'), 'lookup / %s' % hexs(b'[99999999999999999999]'),
                             'lookup / %s' % hexs(b'[-99999999999999999999]'), 'lookup / %s' % hexs(b':'), 'lookup / %s' % hexs(b'[\t 0]'),
                             'add / %s 2' % hexs(b'a' * 300), 'set_format / 1', 'set_string / %s' % hexs(b'x'), 'remove_elem / 4294967295',
                             'get_elem / 4294967295', 'lookup / %s' % hexs(b'[0x0]'), 'lookup / %s' % hexs(b'[0'), 'lookup / %s' % hexs(b'a.[0].')])
            impl.do(op); count('bad'); resync()
    impl.do('dump'); impl.do('wf'); impl.do('lookup_all'); impl.do('write'); impl.do('destroy')

def set_op(rng, op, target, kind):
    if kind == 'int':
        return '%s %s %d' % (op, target, rand_int(rng, False))
    if kind == 'int64':
        return '%s %s %d' % (op, target, rand_int(rng, True))
    if kind == 'float':
        return '%s %s %016x' % (op, target, rand_dbl(rng))
    if kind == 'bool':
        return '%s %s %d' % (op, target, rng.choice([0, 1, 1, 2, -1]))
    return '%s %s %s' % (op, target, hexs(rng.weighted([(rand_string(rng), 10), (None, 1)])))
