"""Dynamic part of C10 (@include = textual inlining, provenance, depth limit) and C11 (reads release
every file and buffer whatever point they fail at): streams of self-contained cases run on the
implementation (harness/drv_api.c, ASan/UBSan/LSan) and on the Lean model (lean/Main.lean), the
ordinary model correspondence on result / err / dump, and direct oracles that are independent of
the model (tools/gen_inc.py: reference expander, provenance by construction)."""
import os, shutil, time
import vlib, gen_inc
from vlib import Rng, hexs
from gen_inc import File, Inc, Line, Namer

KNOWN_C10 = 'C10:missing-non-first-file-location: error line is the previous file\'s line count'

# ------------------------------------------------------------------ cases and the runner

class Case:
    """a self-contained group of operations (starts with `init`, creates the files it needs) with
    checks on the implementation's outputs.  checks: list of fn(outs) -> None | (index, why, key_indices)"""
    def __init__(self, tag):
        self.tag = tag
        self.ops = []
        self.checks = []
    def op(self, s):
        self.ops.append(s)
        return len(self.ops) - 1

def first_word(op):
    return op.split(' ', 1)[0]

def project(op, out):
    """what is compared between implementation and model"""
    w = first_word(op)
    if w in ('read_string', 'read_stream', 'read_file'):
        return out.split(' ')[0]
    if w == 'read_stream_keep':
        f = out.split(' ')
        return f[0] + ' ' + f[-1]
    if w in ('err', 'dump', 'fdcount', 'leakcheck', 'fdmark'):
        return out
    return None

ABS_ROOT = [None]     # absolute directory used by the absolute-path variants (below .work, recreated by the ops themselves)

def _run_both(exe, work, ops):
    """run a candidate op list on implementation and model from a clean slate"""
    import props
    if ABS_ROOT[0]:
        shutil.rmtree(ABS_ROOT[0], ignore_errors=True)
    io, rc, err = props.run_impl_batch(exe, os.path.join(work, 'scratch-shrink'), ops)
    mo, _, _ = vlib.run_model(ops)
    return io, mo, rc, err

def _ddmin(exe, work, ops, still, budget=70):
    """greedy delta debugging over the op list"""
    def fails(cand):
        io, mo, rc, err = _run_both(exe, work, cand)
        try:
            return still(cand, io, mo, rc, err)
        except Exception:
            return False
    cur = list(ops)
    if not fails(cur):
        return cur
    n, runs = 2, 0
    while len(cur) >= 2 and runs < budget:
        chunk = max(1, len(cur) // n)
        reduced = False
        for start in range(0, len(cur), chunk):
            cand = cur[:start] + cur[start + chunk:]
            if not cand:
                continue
            runs += 1
            if fails(cand):
                cur = cand; n = max(n - 1, 2); reduced = True
                break
            if runs >= budget:
                break
        if not reduced:
            if chunk == 1:
                break
            n = min(n * 2, len(cur))
    return cur

def _shrink(exe, work, ops, keys):
    """drop operations while every key (operation, output) pair is still observed"""
    want = [(ops[i], o) for i, o in keys]
    def still(o2, io2, mo2, rc, err):
        pairs = set(zip(o2, io2))
        return all(k in pairs for k in want)
    return _ddmin(exe, work, ops, still)

def _shrink_diff(exe, work, ops):
    def still(o2, io2, mo2, rc, err):
        return len(io2) != len(mo2) or any(project(x, y) != project(x, z) for x, y, z in zip(o2, io2, mo2))
    return _ddmin(exe, work, ops, still)

def _shrink_crash(exe, work, ops):
    def still(o2, io2, mo2, rc, err):
        return rc != 0 or 'ERROR: ' in err or 'runtime error' in err
    return _ddmin(exe, work, ops, still, budget=40)

def run_cases(ctx, exe, cases, stream, what, group=12):
    work = ctx['work']
    cov = ctx['cov']
    stats = cov.setdefault('distribution', {}).setdefault(stream, {})
    total = 0
    distinct = set()
    n_sessions = 0
    samples = []
    nviol = 0
    for g in range(0, len(cases), group):
        if nviol >= 3:
            break
        chunk = cases[g:g + group]
        scratch = os.path.join(work, 'scratch')
        shutil.rmtree(scratch, ignore_errors=True)
        if ABS_ROOT[0]:
            shutil.rmtree(ABS_ROOT[0], ignore_errors=True)
        impl = vlib.Impl(exe, scratch)
        spans = []
        for case in chunk:
            a = len(impl.ops)
            for op in case.ops:
                impl.do(op)
            spans.append((a, len(impl.ops)))
        rc, err = impl.close()
        n_sessions += 1
        ops, iouts = impl.ops, impl.outs
        total += len(ops)
        mouts, mrc, merr = vlib.run_model(ops)
        attributed = False
        before = nviol
        for case, (a, b) in zip(chunk, spans):
            if nviol >= 4:
                break
            cops, couts = ops[a:b], iouts[a:b]
            stats[case.tag] = stats.get(case.tag, 0) + 1
            for o, r in zip(cops, couts):
                if first_word(o) in ('read_file', 'read_string', 'read_stream_keep', 'err', 'fdcount', 'leakcheck'):
                    distinct.add((g, a, o, r))
            if len(samples) < 3 and g == 0:
                samples.append({'stream': stream, 'case': case.tag, 'ops': [x[:200] for x in cops[:14]], 'impl': [x[:200] for x in couts[:14]]})
            dead = [i for i, r in enumerate(couts) if r in ('<crashed>', '<dead>')]
            if dead:
                i = dead[0]
                mini = _shrink_crash(exe, work, cops[:i + 1])
                ctx['violation']('failing-input', '%s: the implementation crashed, exited or a sanitizer stopped it (%s stream) at %r' % (what, stream, cops[i][:80]),
                                 {'ops': mini, 'stderr': err[-3000:], 'rc': rc, 'stream': stream}, True)
                attributed = True; nviol += 1
                break
            bad = None
            for chk in case.checks:
                bad = chk(couts)
                if bad is not None:
                    break
            if bad is not None:
                i, why, keys = bad
                mini = _shrink(exe, work, cops[:max([i] + [k for k in keys]) + 1], [(k, couts[k]) for k in keys])
                ctx['violation']('failing-input', '%s: %s' % (what, why),
                                 {'ops': mini, 'impl_outputs': [couts[k][:600] for k in keys], 'case': case.tag, 'stream': stream}, True)
                nviol += 1
                continue
            if len(mouts) < b:
                if not attributed:
                    ctx['violation']('broken-correspondence', 'the model driver stopped early (%d of %d lines)' % (len(mouts), len(iouts)),
                                     {'ops': cops[:20], 'model_stderr': merr[-2000:]}, False)
                    attributed = True; nviol += 1
                break
            cm = mouts[a:b]
            for i, (o, x, y) in enumerate(zip(cops, couts, cm)):
                if project(o, x) != project(o, y):
                    mini = _shrink_diff(exe, work, cops[:i + 1])
                    io2, mo2, _, _ = _run_both(exe, work, mini)
                    ctx['violation']('failing-input', '%s: implementation and model (the proved specification) disagree on op %r' % (what, (mini[-1] if mini else o)[:120]),
                                     {'ops': mini, 'impl': [z[:600] for z in io2[-3:]], 'model': [z[:600] for z in mo2[-3:]], 'case': case.tag, 'stream': stream}, True)
                    nviol += 1
                    break
        if not attributed and nviol == before and (rc != 0 or 'ERROR: ' in err or 'runtime error' in err):
            # a sanitizer report that did not stop a case (e.g. LeakSanitizer at exit): find the case
            culprit = None
            for case in chunk:
                io2, mo2, rc2, err2 = _run_both(exe, work, case.ops)
                if rc2 != 0 or 'ERROR: ' in err2 or 'runtime error' in err2:
                    culprit = (case, err2, rc2); break
            if culprit:
                case, err2, rc2 = culprit
                mini = _shrink_crash(exe, work, case.ops)
                ctx['violation']('failing-input', '%s: a sanitizer fired (%s stream, case %s)' % (what, stream, case.tag),
                                 {'ops': mini, 'stderr': err2[-3000:], 'rc': rc2, 'stream': stream}, True)
            else:
                ctx['violation']('failing-input', '%s: a sanitizer fired (%s stream)' % (what, stream),
                                 {'ops': ops[-60:], 'stderr': err[-3000:], 'rc': rc, 'stream': stream}, True)
            nviol += 1
    cov['evaluations'] = cov.get('evaluations', 0) + total
    cov['distinct_nontrivial'] = cov.get('distinct_nontrivial', 0) + len(distinct)
    cov['rule'] = ('seeded include forests (tools/gen_inc.py) run as self-contained cases on the implementation and on the model; '
                   'an evaluation is one operation with its result; distinct_nontrivial counts distinct (read / err / fdcount / '
                   'leakcheck operation, implementation result) pairs')
    cov['sessions'] = cov.get('sessions', 0) + n_sessions
    cov['cases'] = cov.get('cases', 0) + len(cases)
    cov['samples'] = cov.get('samples', []) + samples
    cov['traces_validated_against_impl'] = cov.get('traces_validated_against_impl', 0) + n_sessions

# ------------------------------------------------------------------ building the operations of a tree

def err_line(text, f, line):
    return '2 %s %s %d' % (hexs(text), hexs(f), line)

def setup_ops(case, top, namer, incdir, custom, scratch_abs):
    case.op('init')
    if incdir is not None:
        case.op('set_include_dir ' + hexs(incdir))
    if custom:
        case.op('set_include_fn 1')
    dirs = set(namer.dirs)
    mk = []
    if any(d.startswith(b'/') for d in dirs):
        # absolute paths live in a directory of their own below .work; creating it here makes a replay self-contained
        mk.append(scratch_abs.encode())
    mk += sorted(dirs, key=len)
    for d in mk:
        case.op('mkdir ' + hexs(d))
    created = []
    for f in gen_inc.all_files(top)[1:]:
        if f.missing:
            case.op('rmfile ' + hexs(f.actual))
        elif f.is_dir:
            case.op('mkdir ' + hexs(f.actual)); created.append(f.actual)
        else:
            case.op('mkfile %s %s' % (hexs(f.actual), hexs(f.content()))); created.append(f.actual)
    return created

def add_read(case, kind, top, want, stripped_ref=None, resources=False, c11=False):
    """append one read (+ err + dump) and its checks.  want: gen_inc.Expect for this entry point, or None.
    returns the index of the dump op"""
    if resources:
        case.op('fdmark')
    if kind == 'file':
        i = case.op('read_file ' + hexs(top.actual))
    elif kind == 'string':
        i = case.op('read_string ' + hexs(top.content()))
    elif kind == 'stream':
        i = case.op('read_stream ' + hexs(top.content()))
    else:
        i = case.op('read_stream_keep ' + hexs(top.content()))
    if resources:
        jf = case.op('fdcount'); jl = case.op('leakcheck')
    e = case.op('err'); d = case.op('dump')
    entry = {'file': 'config_read_file', 'string': 'config_read_string', 'stream': 'config_read', 'keep': 'config_read'}[kind]
    if resources:
        def chk_res(outs, jf=jf, jl=jl, i=i):
            if outs[jf] != '0':
                return jf, '%s returned with %s more open file descriptor(s) than before the call' % (entry, outs[jf]), [i, jf]
            if outs[jl] != '0':
                return jl, 'memory allocated during %s is no longer reachable after it returned (LeakSanitizer)' % entry, [i, jl]
            if kind == 'keep' and not outs[i].endswith(' stream-ok'):
                return i, "the caller's stream is no longer usable after config_read returned: " + outs[i], [i]
            return None
        case.checks.append(chk_res)
    if want is not None and c11:
        # C11 looks at the error record only as far as its statement goes: the read fails, and the file name
        # reported (read by the harness, so a dangling pointer is caught by ASan) is the expected one
        def chk11(outs, i=i, e=e, want=want):
            res = outs[i].split(' ')[0]
            if want.error is None:
                return None
            if res != '0':
                return i, '%s succeeded although a fault was injected (%s)' % (entry, want.error[0].decode()), [i, e]
            f = outs[e].split(' ')
            ok = [hexs(want.error[1])] + ([hexs(want.finding[1])] if want.finding is not None else [])
            if f[0] != '2' or f[2] not in ok:
                return e, '%s: error reported as %r; expected a parse error naming the file %r' % (
                    entry, outs[e], (want.error[1] or b'<none>').decode('latin-1')), [i, e]
            if f[2] != ok[0] and KNOWN_C10 not in case.known:
                case.known.append(KNOWN_C10)
            return None
        case.checks.append(chk11)
    elif want is not None:
        def chk(outs, i=i, e=e, d=d, want=want):
            res = outs[i].split(' ')[0]
            if want.error is not None:
                doc = err_line(*want.error)
                if res != '0':
                    return i, '%s succeeded although the include tree must fail with "%s"' % (entry, want.error[0].decode()), [i, e]
                if outs[e] == doc:
                    return None
                if want.finding is not None and outs[e] == err_line(*want.finding):
                    if KNOWN_C10 not in case.known:
                        case.known.append(KNOWN_C10)
                    return None
                return e, '%s: error reported as %r, the documentation requires %r (text, file and line of the directive / of the offending line)' % (
                    entry, outs[e], doc), [i, e]
            if want.must_succeed:
                if res != '1':
                    return i, '%s failed on a valid include tree: %s' % (entry, outs[e]), [i, e]
                if outs[e].split(' ')[0] != '0':
                    return e, 'successful read left error type %s' % outs[e].split(' ')[0], [i, e]
            if res == '1':
                try:
                    tree = gen_inc.parse_dump(outs[d])
                except Exception as x:
                    return d, 'unparseable dump (%r)' % x, [d]
                pos = gen_inc.named_positions(tree)
                for name, where in want.prov.items():
                    got = pos.get(name)
                    if got is None:
                        if want.must_succeed:
                            return d, 'setting %r is missing from the configuration read through %s' % (name.decode(), entry), [i, d]
                        continue
                    if got != [where]:
                        return d, 'setting %r was written at %s line %d but reports %s' % (
                            name.decode(), (where[0] or b'<top>').decode('latin-1'), where[1],
                            ', '.join('%s line %d' % ((g[0] or b'<top>').decode('latin-1'), g[1]) for g in got)), [i, d]
            return None
        case.checks.append(chk)
    return i, e, d

def add_equiv(case, a, b, what_a, what_b):
    """reads a and b (index triples) must agree on the result and on the configuration up to positions"""
    def chk(outs, a=a, b=b):
        ra, rb = outs[a[0]].split(' ')[0], outs[b[0]].split(' ')[0]
        if ra != rb:
            return b[0], '%s returned %s but %s returned %s (%s / %s)' % (what_a, ra, what_b, rb, outs[a[1]], outs[b[1]]), [a[0], b[0]]
        if ra == '1':
            ta = gen_inc.strip_positions(gen_inc.parse_dump(outs[a[2]]))
            tb = gen_inc.strip_positions(gen_inc.parse_dump(outs[b[2]]))
            if ta != tb:
                return b[2], '%s and %s yield different configurations' % (what_a, what_b), [a[0], a[2], b[0], b[2]]
        else:
            ea, eb = outs[a[1]].split(' ')[:2], outs[b[1]].split(' ')[:2]
            if ea != eb:
                return b[1], '%s and %s fail with different errors: %s / %s' % (what_a, what_b, outs[a[1]], outs[b[1]]), [a[0], a[1], b[0], b[1]]
        return None
    case.checks.append(chk)

def expect_for(top, actual, custom, must_succeed):
    old = top.actual
    top.actual = actual
    ex = gen_inc.expand(top, custom)
    top.actual = old
    ex.must_succeed = must_succeed and ex.error is None
    return ex

# ------------------------------------------------------------------ C10 cases

def c10_tree_case(rng, scratch_abs, known, n, rich, max_depth, fanout, custom, dirmode, fault, tag, min_files=0, weird=False, deep=False):
    abs_root = scratch_abs.encode()
    incdir = {None: None, 'rel': b'inc', 'abs': abs_root + b'/incabs'}[dirmode]
    for attempt in range(50):
        r = rng.fork()
        lines = gen_inc.gen_lines(r, n, rich)
        namer = Namer(r, incdir, abs_root, allow_abs=r.chance(1, 2))
        top = File(b'top.cfg', b'top.cfg')
        top.items = gen_inc.cut(r, lines, namer, max_depth, fanout, multi=custom, weird=weird, p_stop=(8 if min_files else 4), deep=deep)
        files = gen_inc.all_files(top)
        incs = [it for f in files for it in f.items if isinstance(it, Inc)]
        if len(files) - 1 < min_files:
            continue
        if fault in ('missing', 'dir') and len(files) < 2:
            continue
        if fault in ('fnerror', 'fnnull', 'fnempty') and not incs:
            continue
        break
    else:
        fault = None
    if incdir is not None and incdir.startswith(b'/'):
        namer.dirs.add(incdir)
    skipping = False
    if fault == 'missing':
        r.choice(files[1:]).missing = True
    elif fault == 'dir':
        r.choice(files[1:]).is_dir = True
    elif fault in ('fnerror', 'fnnull', 'fnempty'):
        r.choice(incs).special = {'fnerror': 'error', 'fnnull': 'null', 'fnempty': 'empty'}[fault]
        skipping = fault != 'fnerror'
    case = Case(tag)
    case.known = known
    created = setup_ops(case, top, namer, incdir, custom, scratch_abs)
    case.op('mkfile %s %s' % (hexs(top.actual), hexs(top.content())))
    exf = expect_for(top, b'top.cfg', custom, not skipping)
    a = add_read(case, 'file', top, exf)
    if exf.error is None and b'\x00' not in exf.spliced:
        # textual inlining: the spliced text read from a string
        spl = File(None, None); spl.items = [Line(exf.spliced)]; spl.trailing_nl = False
        b = add_read(case, 'string', spl, None)
        add_equiv(case, a, b, 'config_read_file on the include tree', 'config_read_string on the spliced text')
    if r.chance(1, 2):
        exs = expect_for(top, None, custom, not skipping)
        add_read(case, r.choice(['string', 'stream']), top, exs)
    for p in created + [top.actual]:
        case.op('rmfile ' + hexs(p))
    case.info = (len(files) - 1, exf.max_depth, exf.error)
    return case

def chain_files(k, body_lines=True, prefix=b'c'):
    """top -> c1 -> c2 -> ... -> ck, settings before and after each directive"""
    files = [File(b'top.cfg', b'top.cfg')] + [File(b'%s%d.cfg' % (prefix, i), b'%s%d.cfg' % (prefix, i)) for i in range(1, k + 1)]
    for i, f in enumerate(files):
        nm = b'top' if i == 0 else b'c%d' % i
        if body_lines:
            f.items.append(Line(b'%s_a = %d;' % (nm, i), name=nm + b'_a', scalar=True))
            f.items.append(Line(b'# %d' % i))
        if i < k:
            f.items.append(Inc(b'@include "', [files[i + 1]]))
        if body_lines:
            f.items.append(Line(b'%s_b = "%d";' % (nm, i), name=nm + b'_b', scalar=True))
    return files

def c10_chain_case(known, k, entry, scratch_abs):
    files = chain_files(k)
    top = files[0]
    case = Case('chain-%d-%s' % (k, entry)); case.known = known
    case.op('init')
    for f in files[1:]:
        case.op('mkfile %s %s' % (hexs(f.actual), hexs(f.content())))
    case.op('mkfile %s %s' % (hexs(top.actual), hexs(top.content())))
    ex = expect_for(top, b'top.cfg' if entry == 'file' else None, False, True)
    assert (ex.error is None) == (k <= gen_inc.MAX_DEPTH)
    if ex.error is not None:
        assert ex.error[0] == gen_inc.E_TOO_DEEP and ex.error[1] == b'c%d.cfg' % gen_inc.MAX_DEPTH and ex.error[2] == 3
    add_read(case, entry, top, ex)
    for f in files:
        case.op('rmfile ' + hexs(f.actual))
    return case

def c10_cycle_case(known, length, entry, through_top):
    """cyclic inclusion: a ring of `length` files, entered from the top file (or containing it)"""
    ring = [File(b'r%d.cfg' % i, b'r%d.cfg' % i) for i in range(length)]
    top = File(b'top.cfg', b'top.cfg')
    if through_top:
        ring[0] = top
    for i, f in enumerate(ring):
        f.items = [Line(b'# ring member %d' % i), Inc(b'  @include "', [ring[(i + 1) % length]]), Line(b'')]
    if not through_top:
        top.items = [Line(b'before = 1;', name=b'before', scalar=True), Inc(b'@include "', [ring[0]]), Line(b'after = 2;', name=b'after', scalar=True)]
    case = Case('cycle-%d-%s-%s' % (length, entry, 'top' if through_top else 'below')); case.known = known
    case.op('init')
    allf = gen_inc.all_files(top)
    for f in allf:
        case.op('mkfile %s %s' % (hexs(f.actual), hexs(f.content())))
    ex = expect_for(top, b'top.cfg' if entry == 'file' else None, False, True)
    assert ex.error is not None and ex.error[0] == gen_inc.E_TOO_DEEP
    add_read(case, entry, top, ex)
    for f in allf:
        case.op('rmfile ' + hexs(f.actual))
    return case

def c10_missing_case(known, k_missing, nfiles, entry):
    """custom include function returning several paths, the k-th cannot be opened (k = 0: the first)"""
    top = File(b'top.cfg', b'top.cfg')
    fs = []
    for i in range(nfiles):
        f = File(b'm%d.cfg' % i, b'm%d.cfg' % i)
        f.items = [Line(b'm%d_%d = %d;' % (i, j, j), name=b'm%d_%d' % (i, j), scalar=True) for j in range(i + 1)]
        if i % 2:
            f.trailing_nl = True
        fs.append(f)
    fs[k_missing].missing = True
    top.items = [Line(b'first = 1;', name=b'first', scalar=True), Line(b''), Inc(b'@include "', fs), Line(b'last = 2;', name=b'last', scalar=True)]
    case = Case('missing-%d-of-%d-%s' % (k_missing, nfiles, entry)); case.known = known
    case.op('init'); case.op('set_include_fn 1')
    for f in fs:
        if f.missing:
            case.op('rmfile ' + hexs(f.actual))
        else:
            case.op('mkfile %s %s' % (hexs(f.actual), hexs(f.content())))
    case.op('mkfile %s %s' % (hexs(top.actual), hexs(top.content())))
    ex = expect_for(top, b'top.cfg' if entry == 'file' else None, True, True)
    add_read(case, entry, top, ex)
    for f in fs + [top]:
        case.op('rmfile ' + hexs(f.actual))
    return case

def abs_root(ctx):
    """the absolute directory of the absolute-path variants: a sibling of the scratch directory the harness
    process is started in (Impl receives <work>/scratch), directly below .work so that a replay can recreate it"""
    ABS_ROOT[0] = os.path.abspath(os.path.join(vlib.WORK_ROOT, 'abs-%s-%s' % (ctx['prop'], ctx['tier'])))
    return ABS_ROOT[0]

def run_C10(ctx):
    t0 = time.time()
    quick = ctx['tier'] == 'quick'
    work = ctx['work']
    exe, log = vlib.build_harness(os.path.join(work, 'h'), 'drv_api.c')
    if not exe:
        ctx['violation']('harness-build', 'the harness no longer compiles against /repo', {'log': log[-3000:]}, False)
        return
    scratch_abs = abs_root(ctx)
    rng = Rng(ctx['seed'] * 1000003 + 1010)
    known = []
    cases = []
    # (3) depth: chains of 0..12 nested includes, through every entry point
    for k in range(0, 13):
        for entry in ('file', 'string', 'stream'):
            cases.append(c10_chain_case(known, k, entry, scratch_abs))
    for length in (1, 2, 3, 5):
        for entry in ('file', 'string'):
            cases.append(c10_cycle_case(known, length, entry, False))
        cases.append(c10_cycle_case(known, length, 'file', True))
    for nfiles in (1, 2, 3, 5):
        for k in range(nfiles):
            cases.append(c10_missing_case(known, k, nfiles, rng.choice(['file', 'string', 'stream'])))
    run_cases(ctx, exe, cases, 'depth-cycles-missing', 'C10 include depth limit and error location')
    # (1) + (2): random trees
    cases = []
    n_trees = 500 if quick else 4000
    for t in range(n_trees):
        custom = rng.chance(1, 2)
        dirmode = rng.choice([None, None, 'rel', 'abs'])
        fault = rng.weighted([(None, 10), ('missing', 2), ('dir', 1)] + ([('fnerror', 1), ('fnnull', 1), ('fnempty', 1)] if custom else []))
        max_depth = rng.weighted([(0, 1), (1, 2), (2, 3), (3, 3), (5, 2), (8, 1), (12, 1)])
        n = rng.weighted([(3, 1), (8, 3), (20, 4), (45, 2), (90, 1)])
        tag = 'tree:%s:%s:%s' % ('custom' if custom else 'default', dirmode or 'nodir', fault or 'valid')
        cases.append(c10_tree_case(rng, scratch_abs, known, n, rng.chance(3, 4), max_depth, rng.range(1, 5), custom, dirmode, fault, tag,
                                   weird=rng.chance(1, 4)))
    # nesting that really reaches 8..12 levels (beyond 10 the read must fail at the 11th directive)
    for t in range(20 if quick else 100):
        md = 8 + t % 5
        custom = t % 3 == 1
        cases.append(c10_tree_case(rng, scratch_abs, known, 36, t % 2 == 0, md, 1, custom, rng.choice([None, 'rel', 'abs']), None,
                                   'tree:deep-%d:%s' % (md, 'custom' if custom else 'default'), deep=True))
    # more than 32 files in one read (the file-name vector grows in chunks of 32)
    for t in range(4 if quick else 40):
        custom = t % 2 == 1
        cases.append(c10_tree_case(rng, scratch_abs, known, 140, False, 4, 5, custom, rng.choice([None, 'rel']), None,
                                   'tree:many-files:%s' % ('custom' if custom else 'default'), min_files=33))
    run_cases(ctx, exe, cases, 'trees', 'C10 include = textual inlining, provenance')
    infos = [c.info for c in cases if hasattr(c, 'info')]
    ctx['cov']['include_trees'] = {'trees': len(infos), 'max_files_in_one_read': max(i[0] for i in infos), 'max_depth_reached': max(i[1] for i in infos),
                                   'with_more_than_32_files': sum(1 for i in infos if i[0] > 32),
                                   'failing_by_construction': sum(1 for i in infos if i[2] is not None)}
    for k in known:
        if k not in ctx['known_hits']:
            ctx['known_hits'].append(k)
    shutil.rmtree(ABS_ROOT[0], ignore_errors=True)
    ctx['notes'].append('C10 dynamic part: %.1fs' % (time.time() - t0))

# ------------------------------------------------------------------ C11

FAULT_LINES = {'syntax': (b'= = ;', gen_inc.E_SYNTAX), 'dup': (None, gen_inc.E_DUP), 'mismatch': (None, gen_inc.E_MISMATCH)}

def c11_forest(rng, scratch_abs, n, max_depth, custom, dirmode, chain=0):
    abs_root = scratch_abs.encode()
    incdir = {None: None, 'rel': b'inc', 'abs': abs_root + b'/incabs'}[dirmode]
    r = rng.fork()
    namer = Namer(r, incdir, abs_root, allow_abs=r.chance(1, 3))
    if chain:
        files = chain_files(chain)
        top = files[0]
        return top, namer, incdir
    for attempt in range(30):
        lines = gen_inc.gen_lines(r, n, rich=False)
        top = File(b'top.cfg', b'top.cfg')
        top.items = gen_inc.cut(r, lines, namer, max_depth, 4, multi=custom, no_nl_ok=True)
        if len(gen_inc.all_files(top)) >= 3:
            break
    if incdir is not None and incdir.startswith(b'/'):
        namer.dirs.add(incdir)
    return top, namer, incdir

def c11_positions(top, custom):
    """every (kind, file, item index) at which a fault can be injected"""
    out = []
    files = gen_inc.all_files(top)
    for f in files:
        out.append(('delete', f, None)); out.append(('dir', f, None))
        for i, it in enumerate(f.items):
            if isinstance(it, Line):
                out.append(('syntax', f, i))
                if it.scalar:
                    out.append(('dup', f, i)); out.append(('mismatch', f, i))
            elif custom:
                out.append(('fnerror', f, i)); out.append(('fnempty', f, i)); out.append(('fnnull', f, i))
    return out

def c11_case(known, top, namer, incdir, custom, scratch_abs, faults, tag):
    """one forest, created once; each fault is injected, read through the three entry points, and undone"""
    case = Case(tag); case.known = known
    created = setup_ops(case, top, namer, incdir, custom, scratch_abs)
    case.op('mkfile %s %s' % (hexs(top.actual), hexs(top.content())))
    def three_reads(skipping, top_gone=False):
        for entry in ('file', 'string', 'keep'):
            if top_gone and entry != 'file':
                continue
            ex = expect_for(top, b'top.cfg' if entry == 'file' else None, custom, not skipping)
            if top_gone:
                # config_read_file on a missing / non-regular file: the I/O error record, nothing opened
                case.op('fdmark')
                i = case.op('read_file ' + hexs(top.actual)); jf = case.op('fdcount'); jl = case.op('leakcheck'); e = case.op('err'); case.op('dump')
                def chk(outs, i=i, jf=jf, jl=jl, e=e):
                    if outs[i].split(' ')[0] != '0' or outs[e] != '1 %s - 0' % hexs(b'file I/O error'):
                        return e, 'config_read_file on an unreadable file: %s / %s' % (outs[i], outs[e]), [i, e]
                    if outs[jf] != '0' or outs[jl] != '0':
                        return jf, 'config_read_file on an unreadable file left a descriptor open or leaked (fd %s, leak %s)' % (outs[jf], outs[jl]), [i, jf, jl]
                    return None
                case.checks.append(chk)
            else:
                add_read(case, entry, top, None if skipping else ex, resources=True, c11=True)
            case.op('clear')
    # the unmodified forest first
    three_reads(False)
    for kind, f, idx in faults:
        is_top = f is top
        if kind in ('delete', 'dir'):
            case.op('rmfile ' + hexs(f.actual))
            if kind == 'dir':
                case.op('mkdir ' + hexs(f.actual))
            f.missing = True
            three_reads(False, top_gone=is_top)
            f.missing = False
            if kind == 'dir':
                case.op('rmfile ' + hexs(f.actual))
            case.op('mkfile %s %s' % (hexs(f.actual), hexs(f.content())))
            continue
        old = f.items[idx]
        if kind in FAULT_LINES:
            if kind == 'syntax':
                text = b'= = ;'
            elif kind == 'dup':
                body = old.text.rstrip()
                text = body + (b'' if body.endswith((b';', b',')) else b';') + b' ' + body.lstrip()
            else:
                text = old.name + b' = [ 1, 2.5 ];'
            f.items[idx] = Line(text, fault=FAULT_LINES[kind][1])
            skipping = False
        else:
            new = Inc(old.lead, old.files, old.trail, {'fnerror': 'error', 'fnempty': 'empty', 'fnnull': 'null'}[kind])
            f.items[idx] = new
            skipping = kind != 'fnerror'
        case.op('mkfile %s %s' % (hexs(f.actual), hexs(f.content())))
        three_reads(skipping)
        f.items[idx] = old
        case.op('mkfile %s %s' % (hexs(f.actual), hexs(f.content())))
    for p in created + [top.actual]:
        case.op('rmfile ' + hexs(p))
    return case

def run_C11(ctx):
    t0 = time.time()
    quick = ctx['tier'] == 'quick'
    work = ctx['work']
    exe, log = vlib.build_harness(os.path.join(work, 'h'), 'drv_api.c')
    if not exe:
        ctx['violation']('harness-build', 'the harness no longer compiles against /repo', {'log': log[-3000:]}, False)
        return
    scratch_abs = abs_root(ctx)
    rng = Rng(ctx['seed'] * 1000003 + 1111)
    known = []
    cases = []
    n_forests = 14 if quick else 80
    per_forest = 48 if quick else None           # quick: a seeded sample of positions; thorough: all
    kinds_seen = {}
    total_positions = 0
    specs = []
    for t in range(n_forests):
        custom = t % 2 == 1
        specs.append((rng.weighted([(8, 2), (16, 3), (30, 2)]), rng.weighted([(1, 1), (2, 2), (3, 2), (5, 1)]), custom, rng.choice([None, None, 'rel', 'abs']), 0))
    # excessive depth: chains of 10, 11 and 12 nested files, every fault in turn
    specs += [(0, 0, False, None, 10), (0, 0, False, None, 11), (0, 0, True, None, 12)]
    for n, max_depth, custom, dirmode, chain in specs:
        top, namer, incdir = c11_forest(rng, scratch_abs, n, max_depth, custom, dirmode, chain)
        pos = c11_positions(top, custom)
        total_positions += len(pos)
        if per_forest is not None and len(pos) > per_forest:
            # one of every kind first, then a seeded sample
            chosen = []
            for k in ('delete', 'dir', 'syntax', 'dup', 'mismatch', 'fnerror', 'fnempty', 'fnnull'):
                c = [p for p in pos if p[0] == k]
                if c:
                    chosen.append(rng.choice(c))
            rest = [p for p in pos if p not in chosen]
            while len(chosen) < per_forest and rest:
                chosen.append(rest.pop(rng.below(len(rest))))
            pos = chosen
        for p in pos:
            kinds_seen[p[0]] = kinds_seen.get(p[0], 0) + 1
        # split a forest's faults over several cases so that a replay stays small
        step = 8
        for a in range(0, len(pos), step):
            tag = 'forest:%s:%s:%s' % ('chain%d' % chain if chain else 'tree', 'custom' if custom else 'default', dirmode or 'nodir')
            cases.append(c11_case(known, top, namer, incdir, custom, scratch_abs, pos[a:a + step], tag))
    run_cases(ctx, exe, cases, 'fault-injection', 'C11 release of files and buffers', group=6)
    ctx['cov']['fault_injection'] = {'forests': len(specs), 'fault_positions_available': total_positions,
                                     'faults_injected': sum(kinds_seen.values()), 'by_kind': kinds_seen,
                                     'entry_points': ['config_read_file', 'config_read_string', 'config_read'],
                                     'exhaustive_over_positions': per_forest is None}
    if known:
        # the location reported for a missing non-first file is C10's recorded finding; for C11 only the
        # validity of the reported name and the release of resources matter, and both held
        ctx['notes'].append('tolerated in the error-location check: ' + known[0])
    shutil.rmtree(ABS_ROOT[0], ignore_errors=True)
    ctx['notes'].append('C11 dynamic part: %.1fs' % (time.time() - t0))
