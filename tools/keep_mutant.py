#!/usr/bin/env python3
"""python3 tools/keep_mutant.py <mutant-dir> <seeded-id> <property> '<needs>' '<caught-by summary>'
Copy a confirmed seeded change into /verif/seeded/<seeded-id>/ with a meta.json."""
import json, os, shutil, sys
VERIF = os.path.dirname(os.path.dirname(os.path.abspath(__file__)))
src, sid, prop, needs, caught = sys.argv[1:6]
dst = os.path.join(VERIF, 'seeded', sid)
if os.path.exists(dst):
    sys.exit('refusing to overwrite ' + dst)
os.makedirs(dst)
for f in os.listdir(src):
    if f in ('demo',) or f.endswith('.o') or os.path.isdir(os.path.join(src, f)):
        continue
    shutil.copy(os.path.join(src, f), dst)
readme = open(os.path.join(src, 'README.txt')).read() if os.path.exists(os.path.join(src, 'README.txt')) else ''
meta = {'id': sid, 'breaks_property': prop, 'summary': readme.strip(), 'needs_to_manifest': needs,
        'confirmed': 'tools/confirm_mutant.sh in a scratch git worktree of /repo: applies, builds without new warnings, existing suite passes, demo FAILS with the change and PASSES without it',
        'checks_run': 'python3 tools/try_mutant.py seeded/%s/patch.diff <checks> (scratch copy of /repo via VERIF_REPO; /repo untouched)' % sid,
        'caught_by': caught,
        'note': 'demo.sh locates the repository as ../.. of its own directory: run it from <worktree>/out/<m>/'}
json.dump(meta, open(os.path.join(dst, 'meta.json'), 'w'), indent=1)
print('kept', dst)
