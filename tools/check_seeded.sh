#!/bin/sh
# every kept seeded change must still apply to the current /repo (after later fix: commits); prints the ones that do not
cd "$(dirname "$0")/.."
for d in seeded/*/; do
  s=$(mktemp -d /tmp/seedchk-XXXX)
  rsync -a --exclude _build --exclude .git /repo/ $s/
  if ! git apply --unsafe-paths --directory=$s "$d/patch.diff" 2>/dev/null; then
    if patch -p1 -s -d $s -i "$PWD/$d/patch.diff" >/dev/null 2>&1; then echo "OFFSET-ONLY $d"; else echo "DOES-NOT-APPLY $d"; fi
  fi
  rm -rf $s
done
