#!/usr/bin/env python3
"""python3 tools/run_all.py [quick|thorough] [Cxx ...]: run the registered checks one after another, print a summary."""
import json, os, subprocess, sys, time
VERIF = os.path.dirname(os.path.dirname(os.path.abspath(__file__)))
tier = sys.argv[1] if len(sys.argv) > 1 and sys.argv[1] in ('quick', 'thorough') else 'quick'
want = [a for a in sys.argv[1:] if a.startswith('C')]
m = json.load(open(os.path.join(VERIF, 'MANIFEST.json')))
ids = want or [c['property_id'] for c in m['checks']]
bad = 0
for p in ids:
    t = time.time()
    r = subprocess.run([sys.executable, os.path.join(VERIF, 'tools', 'check.py'), p, '--tier', tier], capture_output=True, text=True, cwd=VERIF)
    last = [l for l in r.stdout.splitlines() if l.startswith(('OK ', 'VIOLATION', 'KNOWN'))]
    print('%s rc=%d %.0fs %s' % (p, r.returncode, time.time() - t, ' | '.join(x[:160] for x in last[:3])), flush=True)
    bad += r.returncode != 0
sys.exit(1 if bad else 0)
