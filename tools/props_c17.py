"""Property C17 — the C++ API agrees with the C API and honours its exception contract.

Dynamic part of the check:
  * correspondence: harness/drv_cpp.cc (public C++ API of the library built from /repo) against
    the model lean/LibconfigModel/Cpp.lean, call for call, on seeded histories (tools/gen_cpp.py);
    the harness line is `<C++ result> | c <C result on the same object>`, the model prints the
    first half;
  * direct oracle: both halves of every harness line must agree under the documented mapping
    (same structure, types, values, lengths, indices, paths, formats; the documented exception
    class for the situation the C result shows, carrying the setting's path plus the documented
    suffix; lookupValue / exists never throw and leave the output untouched on failure;
    iteration in index order; no leaked or dangling wrapper) — no model involved;
  * allocation failures (C13, C++ part): every failing library allocation must surface as
    std::bad_alloc;
  * one dedicated case reproduces the known finding C17:getFormat-after-setDefaultFormat.
"""
import os, re, shutil, struct
import vlib, gen_cpp
from vlib import Rng, hexs

WRAP = ('-Wl,--wrap=malloc', '-Wl,--wrap=calloc', '-Wl,--wrap=realloc', '-Wl,--wrap=strdup')
KNOWN_FORMAT = ('C17:getFormat-after-setDefaultFormat: Setting::getFormat() returns the format cached when the wrapper was created')

CPP_OF_C = gen_cpp.CPP_OF_C
UINT_MAX = 2**32 - 1
INT_MIN, INT_MAX = -2**31, 2**31 - 1

def split(out):
    i = out.find(' | c ')
    return (out, None) if i < 0 else (out[:i], out[i + 5:])

def proj(op, out):
    """the model prints the C++ half; `count <n>` of the allocation scenario is not modelled"""
    h = split(out)[0]
    if h.startswith('count '):
        return 'count'
    if op == 'dump':
        return re.sub(r' dtor=\d+ hook=\d+', '', h)      # constant for a Config object
    return h

def f32_round_bits(bits):
    """(double)(float)x on the bit pattern, by the platform-independent struct module"""
    x = struct.unpack('<d', struct.pack('<Q', bits))[0]
    if x != x:
        return None          # NaN payloads: left to the model correspondence
    try:
        y = struct.unpack('<f', struct.pack('<f', x))[0]
    except OverflowError:
        y = float('inf') if x > 0 else float('-inf')
    return struct.unpack('<Q', struct.pack('<d', y))[0]

def expect_cast(kind, t, auto, i32, i64, f, b, s):
    """documented result of `(T)setting` from what the C getters report:
    ('val', text) | ('exc', class) | ('unspec',) | ('skip',)"""
    number = t in (2, 3, 4)
    def passes(want):
        return want == t or (number and auto and want in (2, 3, 4))
    TYPE, RANGE = ('exc', 'SettingTypeException'), ('exc', 'SettingRangeException')
    def iv(x):
        return ('unspec',) if x == 'unspec' else int(x)
    if kind == 'bool':
        return ('val', '1' if int(b) != 0 else '0') if passes(6) else TYPE
    if kind in ('int', 'uint'):
        if t == 3:
            v = int(i64)
            lo, hi = (INT_MIN, INT_MAX) if kind == 'int' else (0, UINT_MAX)
            return ('val', str(v)) if lo <= v <= hi else RANGE
        if not passes(2):
            return TYPE
        v = iv(i32)
        if isinstance(v, tuple):
            return v
        if kind == 'uint' and v < 0:
            return RANGE
        return ('val', str(v))
    if kind in ('int64', 'long', 'uint64', 'ulong'):
        if t == 2:
            v = int(i32)
        elif not passes(3):
            return TYPE
        else:
            v = iv(i64)
            if isinstance(v, tuple):
                return v
        if kind in ('uint64', 'ulong') and v < 0:
            return RANGE
        return ('val', str(v))
    if kind == 'double':
        return ('val', f) if passes(4) else TYPE
    if kind == 'float':
        if not passes(4):
            return TYPE
        r = f32_round_bits(int(f, 16))
        return ('skip',) if r is None else ('val', '%016x' % r)
    if kind == 'cstr':
        return ('val', s) if passes(5) else TYPE
    if kind == 'string':
        return ('val', '=' if s == '-' else s) if passes(5) else TYPE
    return ('skip',)

def unhex_text(h):
    return b'' if h in ('=', '-') else bytes.fromhex(h)

BAD_MARKS = ['WRAPPER-LEAK', 'WRAPPER-DANGLING', 'INCONSISTENT', 'OUTPUT-TOUCHED', 'E:unknown', 'E:bad_alloc', 'E:ConfigException',
             'E:SettingException:', '!what=', 'undefined']

def make_oracle():
    def oracle(ops, outs):
        dfmt = 0
        for i, (op, out) in enumerate(zip(ops, outs)):
            w = op.split(' ')
            if w[0] != 'cpp' or len(w) < 2:
                continue
            h, c = split(out)
            if h == 'bad-op' or w[1].startswith('badalloc'):
                continue
            for m in BAD_MARKS:
                if m in h:
                    return i, {'WRAPPER-LEAK': 'a Setting wrapper was not deleted together with its setting',
                               'WRAPPER-DANGLING': 'a setting carries a wrapper that has been deleted',
                               'OUTPUT-TOUCHED': 'a failing lookupValue wrote to its output argument',
                               'undefined': 'null pointer passed on'}.get(m, 'unexpected answer %r' % h)
            why = check_line(w, h, c, dfmt) if w[1] != 'init_multi' else None
            if w[1] in ('init', 'init_multi'):
                dfmt = 0
            if w[1] == 'set_default_format' and len(w) == 3:
                dfmt = 1 if w[2] == '1' else 0
            if why:
                return i, '%s -> %r: %s' % (op[:120], out[:200], why)
        return None
    return oracle

def exc_of(h):
    """(class, path bytes) of an E: answer of a Setting exception"""
    m = re.match(r'E:(\w+):([0-9a-f=\-]+)', h)
    if not m:
        return None
    return m.group(1), unhex_text(m.group(2))

def check_line(w, h, c, dfmt):
    op = w[1]
    body = h.split(' freed ')[0]
    cw = c.split(' ') if c is not None else []
    this_path = None; this_ty = None
    if cw and cw[0].startswith('@'):
        tp, ty = cw[0][1:].rsplit(':', 1)
        this_path = unhex_text(tp); this_ty = int(ty); cw = cw[1:]
    def want_exc(cls, suffix):
        e = exc_of(body)
        if e is None or e[0] != cls:
            return 'expected %s' % cls
        if e[1] != this_path + suffix:
            return 'exception path %r, expected %r' % (e[1], this_path + suffix)
        return None
    def name_suffix(arg):
        return b'.' + (b'' if arg == '-' else unhex_text(arg))
    def idx_suffix(i):
        i = int(i)
        i = (i + 2**31) % 2**32 - 2**31
        return b'.[%d]' % i
    # ---- never-throwing members
    if op in ('clookup_value', 'lookup_value', 'cexists', 'exists') and body.startswith('E:'):
        return 'this member function must not throw'
    # ---- Config
    if op in ('read_string', 'read_stream', 'read_file'):
        et, ef, el, etx = cw
        if body == 'ok':
            return None if et == '0' else 'no exception although the C error type is %s' % et
        if body.startswith('E:ParseException:'):
            f, l, t = body[len('E:ParseException:'):].split(':')
            if et != '2' or (f, l, t) != (ef, el, etx):
                return 'ParseException(%s,%s,%s) does not carry the C error information' % (f, l, t)
            return None
        if body == 'E:FileIOException':
            return None if et == '1' else 'FileIOException although the C error type is %s' % et
        return 'undocumented outcome of a read'
    if op == 'write_file':
        if body == 'ok':
            return None if cw == ['0'] else 'no exception although config_write_file failed'
        if body == 'E:FileIOException':
            return None if cw == ['1'] else 'FileIOException without a C I/O error'
        return 'undocumented outcome of writeFile'
    if op == 'write':
        return None if [body] == cw else 'Config::write and config_write differ'
    if op == 'clookup':
        if cw == ['null']:
            e = exc_of(body)
            return None if e == ('SettingNotFoundException', unhex_text(w[2])) else 'expected SettingNotFoundException(path)'
        return None if [body] == cw else 'Config::lookup and config_lookup found different settings'
    if op == 'cexists':
        return None if body == ('0' if cw == ['null'] else '1') else 'Config::exists disagrees with config_lookup'
    if op in ('get_root', 'wrappers', 'get_options', 'get_option', 'get_auto_convert', 'get_tab_width', 'get_float_precision',
              'get_default_format', 'get_include_dir'):
        return None if [body] == cw else 'C++ and C values differ'
    if op in ('set_options', 'set_option', 'set_auto_convert', 'set_tab_width', 'set_float_precision', 'set_default_format', 'set_include_dir'):
        if body != 'ok':
            return 'setter threw'
        want = {'set_options': lambda: str(int(w[2]) % 2**32),
                'set_option': lambda: '1' if (w[3] != '0' or w[2] == '0') else '0',
                'set_auto_convert': lambda: '1' if w[2] != '0' else '0',
                'set_tab_width': lambda: str(min(int(w[2]), 15)),
                'set_float_precision': lambda: w[2],
                'set_default_format': lambda: '1' if w[2] == '1' else '0',
                'set_include_dir': lambda: w[2]}[op]()
        return None if cw == [want] else 'C value %s after the C++ setter, expected %s' % (cw, want)
    if op in ('init', 'clear', 'overloads'):
        return None if body == 'ok' else 'threw'
    # ---- typed access
    if op in ('cast', 'clookup_value', 'lookup_value'):
        kind = w[2]
        if cw == ['null']:
            return None if (op != 'cast' and body == '0') else 'lookupValue of a missing setting must return false'
        path, t, auto, i32, i64, f, b, s = cw
        exp = expect_cast(kind, int(t), auto == '1', i32, i64, f, b, s)
        if exp[0] == 'skip':
            return None
        if exp[0] == 'unspec':
            return None if body == 'unspec' else 'harness/oracle disagree on an undefined conversion'
        if body == 'unspec':
            return 'undefined conversion not predicted'
        if op == 'cast':
            if exp[0] == 'val':
                return None if body == exp[1] else 'C++ value %s, C value maps to %s' % (body, exp[1])
            return want_exc(exp[1], b'')
        if exp[0] == 'val':
            return None if body == '1 ' + exp[1] else 'lookupValue gave %r, C value maps to %r' % (body, '1 ' + exp[1])
        return None if body == '0' else 'lookupValue must return false when the conversion fails'
    if op == 'assign':
        kind = w[2]
        if body == 'unspec':
            return None
        path, t, auto, i32, i64, f, b, s = cw
        t = int(t); auto = auto == '1'
        want = {'bool': 6, 'int': 2, 'long': 3, 'int64': 3, 'double': 4, 'float': 4, 'cstr': 5, 'string': 5}[kind]
        if not (want == t or (t in (2, 3, 4) and auto and want in (2, 3, 4))):
            return want_exc('SettingTypeException', b'')
        # operator=(long long) on an int setting (reachable only through the auto-convert escape): a value that does
        # not fit is refused by config_setting_set_int64 and must be signalled with SettingRangeException
        if kind in ('long', 'int64') and t == 2 and not (-2**31 <= int(w[4]) < 2**31):
            return want_exc('SettingRangeException', b'')
        if body != 'ok':
            return 'assignment threw although the type matches'
        v = w[4]
        if want == t:
            if kind == 'bool' and b != ('1' if v != '0' else '0'): return 'value not stored'
            if kind == 'int' and i32 != v: return 'value not stored'
            if kind in ('long', 'int64') and i64 != v: return 'value not stored'
            if kind == 'double' and f != v: return 'value not stored'
            if kind == 'float':
                r = f32_round_bits(int(v, 16))
                if r is not None and f != '%016x' % r: return 'value not stored'
            if kind in ('cstr', 'string') and s != v: return 'value not stored'
        return None
    # ---- structure
    if op == 'lookup':
        if this_ty != 1:
            return want_exc('SettingTypeException', b'')
        if cw == ['null']:
            return want_exc('SettingNotFoundException', name_suffix(w[3]))
        return None if [body] == cw else 'Setting::lookup and config_setting_lookup differ'
    if op == 'member':
        if this_ty != 1:
            return want_exc('SettingTypeException', b'')
        if cw == ['null']:
            return want_exc('SettingNotFoundException', name_suffix(w[3]))
        return None if [body] == cw else 'operator[](name) and config_setting_get_member differ'
    if op == 'elem':
        if this_ty not in (1, 7, 8):
            return want_exc('SettingTypeException', idx_suffix(w[3]))
        if cw == ['null']:
            return want_exc('SettingNotFoundException', idx_suffix(w[3]))
        return None if [body] == cw else 'operator[](int) and config_setting_get_elem differ'
    if op == 'exists':
        return None if body == ('0' if cw == ['null'] else '1') else 'Setting::exists disagrees with config_setting_get_member'
    if op == 'add':
        if this_ty != 1:
            return want_exc('SettingTypeException', b'')
        if int(w[4]) not in (1, 2, 3, 4, 5, 6, 7, 8):
            return want_exc('SettingTypeException', name_suffix(w[3]))
        if body.startswith('E:'):
            return want_exc('SettingNameException', name_suffix(w[3]))
        return None if body == (w[2].rstrip('/') + '/%d' % (int(cw[0]) - 1)) else 'the new member is not the last child'
    if op == 'add_elem':
        if this_ty not in (7, 8):
            return want_exc('SettingTypeException', b'')
        if body.startswith('E:'):
            if this_ty != 7:
                return 'add(type) to a list must not throw'
            return want_exc('SettingTypeException', idx_suffix(cw[0]))
        return None if body == (w[2].rstrip('/') + '/%d' % (int(cw[0]) - 1)) else 'the new element is not the last child'
    if op == 'remove':
        if this_ty != 1:
            return want_exc('SettingTypeException', b'')
        if body.startswith('E:'):
            return want_exc('SettingNotFoundException', name_suffix(w[3]))
        return None if body == 'ok' else 'undocumented outcome'
    if op == 'remove_idx':
        if this_ty not in (1, 7, 8):
            return want_exc('SettingTypeException', idx_suffix(w[3]))
        if body.startswith('E:'):
            if int(w[3]) < int(cw[0]):
                return 'remove(idx) threw for an existing index'
            return want_exc('SettingNotFoundException', idx_suffix(w[3]))
        return None if body == 'ok' else 'undocumented outcome'
    if op == 'info':
        a = body.split(' '); b = list(cw)
        if len(a) != 15 or len(b) != 15:
            return 'malformed info'
        b[3] = str(CPP_OF_C.get(int(b[3]), 0))
        if a != b:
            names = ['getLength', 'getName', 'getIndex', 'getType', 'getFormat', 'isRoot', 'isGroup', 'isArray', 'isList', 'isAggregate', 'isScalar',
                     'isNumber', 'isString', 'getSourceLine', 'getSourceFile']
            diff = [n for n, x, y in zip(names, a, b) if x != y]
            return 'C++ and C disagree on ' + ','.join(diff)
        return None
    if op == 'get_path':
        if [body] != cw:
            return 'getPath() differs from the documented path text'
        return None if unhex_text(body) == this_path else 'getPath() differs from the documented path text'
    if op == 'get_parent':
        if cw == ['null']:
            return None if exc_of(body) == ('SettingNotFoundException', b'') else 'getParent() of the root must throw SettingNotFoundException'
        return None if [body] == cw else 'getParent() and config_setting_parent differ'
    if op == 'set_format':
        if body != 'ok':
            return 'setFormat threw'
        want = ('1' if w[3] == '1' else str(dfmt)) if this_ty in (2, 3) else None
        return None if want is None or cw == [want] else 'C format %s after setFormat(%s)' % (cw, w[3])
    if op in ('iterate', 'citerate'):
        if this_ty not in (1, 7, 8):
            return want_exc('SettingTypeException', b'')
        n = int(cw[0])
        want = 'iter %s dist %d' % (','.join(str(k) for k in range(n)) if n else '-', n)
        return None if body == want else 'iteration visited %r, expected %r' % (body, want)
    return None

# ------------------------------------------------------------------ the check

def known_format_case(ctx, exe):
    """wrap an int setting, setDefaultFormat(FormatHex), compare getFormat() with config_setting_get_format"""
    scratch = os.path.join(ctx['work'], 'scratch-known')
    shutil.rmtree(scratch, ignore_errors=True)
    impl = vlib.Impl(exe, scratch)
    for op in ['cpp init', 'cpp add / %s 1' % hexs(b'i'), 'cpp info /0', 'cpp set_default_format 1']:
        impl.do(op)
    out = impl.do('cpp info /0')
    impl.do('cpp init')
    rc, err = impl.close()
    h, c = split(out)
    try:
        cpp_fmt = h.split(' ')[4]
        c_fmt = c.split(' ')[5]
    except Exception:
        return
    ctx['cov'].setdefault('known_case', {})['getFormat-after-setDefaultFormat'] = {'cpp': cpp_fmt, 'c': c_fmt}
    if cpp_fmt != c_fmt:
        ctx['known_hits'].append(KNOWN_FORMAT)

def run_C17(ctx):
    # imported here: props imports this module at its end
    from props import correspondence
    quick = ctx['tier'] == 'quick'
    # replays name the driver and its link flags (tools/replay.py)
    report = ctx['violation']
    def violation(kind, what, payload, found_input):
        payload = dict(payload); payload.setdefault('driver', 'drv_cpp.cc'); payload.setdefault('link_extra', list(WRAP))
        report(kind, what, payload, found_input)
    ctx = dict(ctx); ctx['violation'] = violation
    # -- correspondence + direct oracle on seeded histories
    plan = [('mixed', 6, 320), ('convert', 5, 340), ('lookup', 4, 280), ('struct', 4, 280)] if quick else \
           [('mixed', 50, 700), ('convert', 40, 800), ('lookup', 30, 700), ('struct', 30, 700)]
    fns = []
    for profile, sessions, n_ops in plan:
        for _ in range(sessions):
            fns.append(lambda impl, rng, stats, profile=profile, n_ops=n_ops: gen_cpp.session(impl, rng, n_ops, profile, stats))
    # -- allocation failures inside C++ calls (C13, C++ part): every k below the fault-free count must give bad_alloc
    def alloc_fn(impl, rng, stats):
        out = impl.do('cpp badalloc -1 0')
        n = int(out.split(' ')[1]) if out.startswith('count ') else 0
        ks = list(range(n)) if not quick else sorted(set(list(range(min(n, 60))) + [rng.below(max(n, 1)) for _ in range(90)] + [max(n - 1, 0)]))
        for k in ks + [n, n + 7]:
            impl.do('cpp badalloc %d %d' % (k, n))
            gen_cpp.count(stats, 'badalloc:' + ('fail' if k < n else 'none'))
    # -- a subclass overriding the virtual include hook (Config::evaluateIncludePath): several files per directive, an
    #    error, NULL without error, no file at all, an include directory, an error in a later file; then back to the base class
    def override_fn(impl, rng, stats):
        H = gen_cpp.hexs
        for incdir in (None, b'sub'):
            impl.do('cpp init_multi')
            pre = (incdir + b'/') if incdir else b''
            impl.do('mkdir %s' % H(b'sub'))
            impl.do('mkfile %s %s' % (H(pre + b'o1.cfg'), H(b'a = 1;\nb = 2;\n'))); impl.do('mkfile %s %s' % (H(pre + b'o2.cfg'), H(b'c = 3;\n')))
            impl.do('mkfile %s %s' % (H(pre + b'o3.cfg'), H(b'd = 4;\ne = ;\n'))); impl.do('mkfile %s %s' % (H(b'otop.cfg'), H(b'z = 0;\n@include "o1.cfg|o2.cfg"\ny = 9;\n')))
            if incdir:
                impl.do('cpp set_include_dir %s' % H(incdir))
            for t in (b'x = 1;\n@include "o1.cfg|o2.cfg"\nw = 2;\n', b'@include "o2.cfg"\n', b'x = 1;\n@include "!boom"\n', b'x = 1;\n@include "?quiet"\ny = 2;\n',
                      b'x = 1;\n@include ""\ny = 2;\n', b'@include "o1.cfg|o3.cfg|o2.cfg"\n', b'@include "o1.cfg|missing.cfg"\n', b'@include "o1.cfg|o1.cfg"\n'):
                impl.do('cpp %s %s' % (('read_string', 'read_stream')[len(t) % 2], H(t))); impl.do('dump'); impl.do('cpp write')
                gen_cpp.count(stats, 'include-override:read')
            impl.do('cpp read_file %s' % H(b'otop.cfg')); impl.do('dump')
            impl.do('cpp init'); impl.do('cpp read_string %s' % H(b'@include "o1.cfg|o2.cfg"\n')); impl.do('dump')
    # -- Setting::exists(name) is the C config_setting_get_member(s, name) != NULL: a DIRECT child of that name. Names that
    #    look like paths (they resolve through lookup()) are not child names; asked of every kind of setting
    def exists_fn(impl, rng, stats):
        H = gen_cpp.hexs
        impl.do('cpp init')
        impl.do('cpp read_string %s' % H(b'y = 1; sub = { x = 1; deep = { z = 2; }; }; lst = ( 1, { q = 1; } ); arr = [1, 2];\n'))
        for p in ('/', '/1', '/1/1', '/2', '/2/1', '/3', '/0'):
            for nm in (b'y', b'sub', b'x', b'deep', b'z', b'q', b'nope', b'sub.x', b'sub:x', b'sub/x', b'.y', b'.sub', b'sub.', b'lst.[0]', b'[0]', b'[1]',
                       b'sub.deep.z', b'deep.z', b'[1].q', b'lst.[1].q', b'arr.[0]', b'', None):
                impl.do('cpp exists %s %s' % (p, H(nm))); impl.do('cpp member %s %s' % (p, H(nm)))
                impl.do('cpp lookup_value int %s %s' % (p, H(nm)))
                gen_cpp.count(stats, 'exists-names')
        impl.do('dump')
    # -- the exception class follows the C error type whatever the entry point: a text read with readString that includes a
    #    file which opens but cannot be read is a FILE I/O error (FileIOException), as it is for read() and readFile()
    def ioerr_fn(impl, rng, stats):
        H = gen_cpp.hexs
        BAD = b'/proc/self/mem'
        try:
            fd = os.open(BAD.decode(), os.O_RDONLY)
            try:
                os.read(fd, 16); readable = True
            except OSError:
                readable = False
            os.close(fd)
        except OSError:
            readable = True
        if readable:
            gen_cpp.count(stats, 'ioerr:no-unreadable-file-on-this-system'); return
        impl.do('mkfile %s %s' % (H(b'iomid.cfg'), H(b'm = 1;\n@include "/proc/self/mem"\nn = 2;\n')))
        for t in (b'@include "/proc/self/mem"\n', b'a = 1;\n@include "/proc/self/mem"\nb = 2;\n', b'@include "iomid.cfg"\nz = 1;\n',
                  b'a = 1;\n@include "/proc/self/mem"\nb = ;\n'):
            impl.do('cpp init'); impl.do('cpp read_string %s' % H(b'old = 1;\n'))
            impl.do('cpp read_string_ioerr %s %s' % (H(BAD), H(t))); impl.do('dump')
            gen_cpp.count(stats, 'ioerr:readString-include-unreadable')
    cpp_oracle = make_oracle()
    def oracle(ops, outs):
        for i, (op, out) in enumerate(zip(ops, outs)):
            w = op.split(' ')
            if len(w) == 4 and w[1] == 'badalloc' and int(w[2]) >= 0:
                k, n = int(w[2]), int(w[3])
                want = 'bad_alloc' if k < n else 'normal-same'
                if out != want:
                    return i, 'failing allocation %d of %d inside C++ calls -> %s (required: %s)' % (k, n, out, want)
        return cpp_oracle(ops, outs)
    correspondence(ctx, fns + [alloc_fn, override_fn, exists_fn, ioerr_fn], proj, oracle, 'C17 C++ API agreement', 'cpp', driver='drv_cpp.cc', extra=WRAP)
    exe = os.path.join(ctx['work'], 'h', 'drv_cpp')
    if not os.path.exists(exe):
        return
    # -- the known finding
    known_format_case(ctx, exe)
    # -- observation (not part of C17's text, reported as a note): with exception paths longer than 15 characters an
    #    allocation failure inside std::stringstream is swallowed by the stream and the exception carries a truncated path
    long_path_note(ctx, exe)

def long_path_note(ctx, exe):
    scratch = os.path.join(ctx['work'], 'scratch-long')
    shutil.rmtree(scratch, ignore_errors=True)
    impl = vlib.Impl(exe, scratch)
    out = impl.do('cpp badalloc_long -1 0')
    n = int(out.split(' ')[1]) if out.startswith('count ') else 0
    ks = range(n) if ctx['tier'] != 'quick' else range(max(n - 130, 0), n)
    odd = []
    for k in ks:
        r = impl.do('cpp badalloc_long %d %d' % (k, n))
        if r != 'bad_alloc':
            odd.append((k, r))
    impl.close()
    if odd:
        ctx['notes'].append('allocation failure swallowed inside std::stringstream while building a long exception path '
                            '(k, outcome of %d allocations): %s' % (n, odd[:5]))
