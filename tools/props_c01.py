"""C01 — written configurations read back as the same configuration: dynamic part.
Direct oracle (independent of the Lean model): write -> read_string -> compare the two trees under the
property's equivalence -> write again (idempotence), under sampled option vectors."""
import re, struct
import gen_api, gen_text, vlib
from vlib import Rng, hexs
import props
from props import correspondence, first_word

class N:
    __slots__ = ('name', 'ty', 'fmt', 'val', 'kids')

def parse_full_dump(line):
    i = line.find('root=')
    if i < 0:
        return None, None
    hdr = dict(kv.split('=', 1) for kv in line[:i].split() if '=' in kv)
    s = line[i + 5:]
    pos = [0]
    def field():
        j = pos[0]
        while s[j] not in ',)':
            j += 1
        v = s[pos[0]:j]; pos[0] = j; return v
    def node():
        assert s[pos[0]] == '('; pos[0] += 1
        n = N()
        n.name = field(); pos[0] += 1
        n.ty = int(field()); pos[0] += 1
        n.fmt = int(field()); pos[0] += 1
        n.kids = []
        if s[pos[0]] == '[':
            pos[0] += 1
            while s[pos[0]] != ']':
                n.kids.append(node())
                if s[pos[0]] == ',':
                    pos[0] += 1
            pos[0] += 1
            n.val = None
        else:
            n.val = field()
        pos[0] += 1
        field(); pos[0] += 1; field(); pos[0] += 1; field()
        assert s[pos[0]] == ')'; pos[0] += 1
        return n
    try:
        return hdr, node()
    except Exception:
        return None, None

def fmt_double_py(bits, prec, sci):
    """libconfig_format_double in Python (glibc-exact % formatting): the text written for a float"""
    x = struct.unpack('<d', struct.pack('<Q', bits))[0]
    s = ('%.*g' % (prec if prec else 1, x)) if sci else ('%.*f' % (prec, x))
    if sci and float(s) in (float('inf'), float('-inf')):
        s = '%.17g' % x          # the rendering at the configured precision is out of range: exact digits are written
    if 'e' in s:
        return s
    if '.' not in s:
        return s + '.0'
    ip, fp = s.split('.', 1)
    fp = fp[0] + fp[1:].rstrip('0') if fp else fp
    return ip + '.' + fp if fp else s

def contains(n, pred):
    return pred(n) or any(contains(k, pred) for k in n.kids)

BOOLNAME = re.compile(rb'^(true|false)$', re.I)

def equiv(a, b, dfmt, prec, sci, path='/'):
    """property C01's equivalence between the tree before writing (a) and after re-reading (b)"""
    if a.name != b.name:
        return '%s: name %s -> %s' % (path, a.name, b.name)
    if a.ty != b.ty:
        return '%s: type %d -> %d' % (path, a.ty, b.ty)
    if a.ty in (2, 3):
        if a.val != b.val:
            return '%s: integer %s -> %s' % (path, a.val, b.val)
        ea = a.fmt if a.fmt else dfmt
        eb = b.fmt if b.fmt else dfmt
        if (ea == 1) != (eb == 1):
            return '%s: effective format %d -> %d' % (path, ea, eb)
    elif a.ty == 6:
        if (a.val != '0') != (b.val != '0'):
            return '%s: boolean %s -> %s' % (path, a.val, b.val)
    elif a.ty == 5:
        va = '=' if a.val == '-' else a.val
        if va != b.val:
            return '%s: string %s -> %s' % (path, a.val, b.val)
    elif a.ty == 4:
        text = fmt_double_py(int(a.val, 16), prec, sci)
        want = struct.unpack('<Q', struct.pack('<d', float(text)))[0]
        if '%016x' % want != b.val:
            return '%s: float %s written as %s must read back as %016x, got %s' % (path, a.val, text, want, b.val)
    else:
        if len(a.kids) != len(b.kids):
            return '%s: %d children -> %d' % (path, len(a.kids), len(b.kids))
        for i, (x, y) in enumerate(zip(a.kids, b.kids)):
            r = equiv(x, y, dfmt, prec, sci, path + str(i) + '/')
            if r:
                return r
    return None

def roundtrip_ops(impl, rng, stats, records):
    """dump, write, read_string(of the text), dump, write on the current configuration"""
    d1 = impl.do('dump')
    t1 = impl.do('write')
    i0 = len(impl.ops) - 2
    r = impl.do('read_string ' + t1)
    impl.do('err')
    impl.do('dump')
    impl.do('write')
    records.append(i0)
    stats['c01:roundtrip'] = stats.get('c01:roundtrip', 0) + 1

def make_oracle(records, known_hits):
    def oracle(ops, outs):
        for i0 in records:
            if i0 + 5 >= len(outs):
                continue
            hdr, a = parse_full_dump(outs[i0])
            if a is None:
                continue
            # outside the property's domain: settings of type NONE, non-finite floats
            if contains(a, lambda n: n.ty == 0 or n.ty > 8):
                continue
            if contains(a, lambda n: n.ty == 4 and n.val is not None and (int(n.val, 16) >> 52) & 0x7ff == 0x7ff):
                continue
            boolname = contains(a, lambda n: n.name not in ('-', '=') and BOOLNAME.match(bytes.fromhex(n.name)) is not None)
            t1 = outs[i0 + 1]
            ok = outs[i0 + 2].split(' ')[0]
            prec = int(hdr.get('prec', '6')); dfmt = int(hdr.get('dfmt', '0')); sci = (int(hdr.get('opts', '0')) & 0x20) != 0
            if prec > 15:
                continue
            if ok != '1':
                if boolname:
                    k = 'C01:member-name~/^(true|false)$/i: a member whose name spells a boolean literal is written as text the reader rejects'
                    if k not in known_hits:
                        known_hits.append(k)
                    continue
                return i0 + 2, 'the text produced by config_write is rejected by the reader: %s' % outs[i0 + 3]
            _, b = parse_full_dump(outs[i0 + 4])
            r = equiv(a, b, dfmt, prec, sci)
            if r:
                return i0 + 4, 'the re-read configuration differs: ' + r
            if outs[i0 + 5] != t1:
                # recorded finding: with scientific notation a SUBNORMAL float may re-render differently after the round
                # trip (the p-digit rendering of a subnormal is not a fixed point of printf∘strtod; proved for normal
                # values: C01_float_idem_sci, refuted for subnormals: C01_sci_denormal).  Only that exact situation is
                # excused: every differing line must be a subnormal float under scientific notation.
                subn = contains(a, lambda n: n.ty == 4 and n.val is not None and (int(n.val, 16) >> 52) & 0x7ff == 0 and (int(n.val, 16) & ((1 << 52) - 1)) != 0)
                if sci and subn and K_DENORM in KNOWN_LISTED and only_float_tokens_differ(t1, outs[i0 + 5]):
                    k = K_DENORM + ': ' + KNOWN_LISTED[K_DENORM]
                    if k not in known_hits:
                        known_hits.append(k)
                    continue
                return i0 + 5, 'writing the re-read configuration does not reproduce the same text'
        return None
    return oracle

K_DENORM = 'C01:subnormal-scientific-rewrite'
KNOWN_LISTED = {f['key']: f['what'] for f in vlib.known_findings('C01')}

def only_float_tokens_differ(o1, o2):
    """the two `write` answers (hex of the text) differ only in tokens that are float literals with an exponent"""
    try:
        a = bytes.fromhex(o1.split(' ')[-1]).split(); b = bytes.fromhex(o2.split(' ')[-1]).split()
    except ValueError:
        return False
    if len(a) != len(b):
        return False
    isf = re.compile(rb'^-?[0-9.]+e[-+][0-9]+[;,]?$')
    return all(x == y or (isf.match(x) and isf.match(y)) for x, y in zip(a, b))

def option_ops(rng):
    return ['set_options %d' % (rng.below(64) | (rng.below(2) << 7)),
            'set_float_precision %d' % rng.choice([0, 1, 2, 6, 10, 15]),
            'set_tab_width %d' % rng.choice([0, 1, 2, 4, 8, 15, 16, 100]),
            'set_default_format %d' % rng.below(2)]

K_DEEP = 'C01:nesting-beyond-parser-stack'

def c01_deep(ctx):
    """trees nested up to and beyond what the reader's parser stack admits, built through the API (not by reading)"""
    listed = {f['key']: f['what'] for f in vlib.known_findings('C01')}
    # lists are written on one line, so their text stays small at any depth; a chain of groups is indented by depth x
    # width on every line - its text grows with the SQUARE of the depth (5000 levels: ~50 MB, several hundred MB under
    # ASan), so groups are kept to depths whose text is a few MB: the verdict must not depend on the memory at hand
    cases = [('list', 10), ('group', 10), ('list', 1000), ('group', 300), ('list', 1666), ('group', 700), ('list', 4990), ('list', 4996), ('list', 4997), ('list', 5000)]
    def fn(impl, rng, stats):
        for k, n in cases:
            impl.do('c01deep %s %d' % (k, n)); stats['c01:deep:%s:%d' % (k, n)] = 1
    def oracle(ops, outs):
        for i, (o, r) in enumerate(zip(ops, outs)):
            w = o.split(' ')
            if w[0] != 'c01deep' or r in ('<crashed>', '<dead>'):
                continue
            f = r.split(' ')
            if f[0] == '1' and f[2] == '1':
                continue
            if f[0] == '0' and f[1] == b'memory exhausted'.hex() and int(w[2]) > 1666 and K_DEEP in listed:
                k = K_DEEP + ': ' + listed[K_DEEP]
                if k not in ctx['known_hits']:
                    ctx['known_hits'].append(k)
                continue
            return i, 'a tree of %s nested %ss was written as text that does not read back to the same text: %s' % (w[2], w[1], r)
        return None
    correspondence(ctx, [fn], lambda op, out: None, oracle, 'C01 write/read round trip', 'deep-nesting')

def run_C01(ctx):
    c01_deep(ctx)
    known_hits = ctx['known_hits']
    n_hist, n_ops, n_opt = (4, 120, 4) if ctx['tier'] == 'quick' else (40, 300, 12)
    # (1) trees built by API histories
    for _ in range(n_hist):
        rec = []
        def fn(impl, rng, stats, rec=rec):
            gen_api.session(impl, rng, n_ops, 'write', stats)      # ends with destroy: rebuild a tree
            impl.do('init')
            gen_api_build(impl, rng)
            for _ in range(n_opt):
                for o in option_ops(rng):
                    impl.do(o)
                roundtrip_ops(impl, rng, stats, rec)
        correspondence(ctx, [fn], props.proj_full, make_oracle(rec, known_hits), 'C01 write/read round trip', 'api-trees')
    # (2) trees obtained by parsing generated texts
    rec = []
    def fn2(impl, rng, stats):
        impl.do('init')
        for _ in range(30 if ctx['tier'] == 'quick' else 400):
            t = gen_text.rand_valid_text(rng)
            if b'\x00' in t:
                continue
            if impl.do('read_string ' + hexs(t)).split(' ')[0] != '1':
                continue
            for o in option_ops(rng):
                impl.do(o)
            roundtrip_ops(impl, rng, stats, rec)
    correspondence(ctx, [fn2], props.proj_full, make_oracle(rec, known_hits), 'C01 write/read round trip', 'parsed-trees')
    # (3) value pools: every float/int/string boundary in one tree, all 64 output-option combinations in the thorough tier
    rec = []
    def fn3(impl, rng, stats):
        def build():
            impl.do('init')
            impl.do('add / %s 1' % hexs(b'g'))
            i = 0
            for b in gen_api.DBL_POOL:
                if (b >> 52) & 0x7ff == 0x7ff:
                    continue
                impl.do('add /0 %s 4' % hexs(b'f%d' % i)); impl.do('set_float /0/%d %016x' % (i, b)); i += 1
            for v in gen_api.INT64_POOL:
                if -2**31 <= v < 2**31:
                    impl.do('add /0 %s 2' % hexs(b'i%d' % i)); impl.do('set_int /0/%d %d' % (i, v))
                else:
                    impl.do('add /0 %s 3' % hexs(b'i%d' % i)); impl.do('set_int64 /0/%d %d' % (i, v))
                if i % 2:
                    impl.do('set_format /0/%d 1' % i)
                i += 1
            for ln in (0, 1, 63, 64, 65, 127, 128, 129, 1000):
                impl.do('add /0 %s 5' % hexs(b's%d' % i)); impl.do('set_string /0/%d %s' % (i, hexs(bytes((j * 7 + ln) % 255 + 1 for j in range(ln))))); i += 1
            impl.do('add /0 %s 5' % hexs(b'snull'))
            impl.do('add / %s 8' % hexs(b'l'))
            for j in range(40):
                impl.do('set_int_elem /1 -1 %d' % j)
        # quick: scientific notation on and off (other bits random) x every precision class; thorough: all 64 words.
        # The tree is rebuilt for every variant: a round trip at a low precision coarsens the floats.
        combos = range(64) if ctx['tier'] == 'thorough' else [0x20 | rng.below(64), rng.below(64) & ~0x20]
        for o in combos:
            for prec in (0, 1, 2, 6, 15):
                build()
                impl.do('set_options %d' % o)
                impl.do('set_float_precision %d' % prec)
                impl.do('set_default_format %d' % rng.below(2))
                impl.do('set_tab_width %d' % rng.choice([0, 2, 15, 16]))
                roundtrip_ops(impl, rng, stats, rec)
    correspondence(ctx, [fn3], props.proj_full, make_oracle(rec, known_hits), 'C01 write/read round trip', 'value-pools')
    # the known finding: reproduce it deliberately so that it is reported while it exists
    rec = []
    def fn4(impl, rng, stats):
        impl.do('init')
        impl.do('add / %s 2' % hexs(b'true'))
        roundtrip_ops(impl, rng, stats, rec)
    correspondence(ctx, [fn4], props.proj_full, make_oracle(rec, known_hits), 'C01 write/read round trip', 'bool-names')
    # the subnormal finding, on its specific inputs (and neighbours that must round-trip: the same values in the default
    # notation, normal values under scientific notation at every precision class)
    rec = []
    def fn5(impl, rng, stats):
        for sci in (1, 0):
            for prec in (0, 1, 2, 6, 15):
                impl.do('init'); impl.do('set_options %d' % (0x20 * sci)); impl.do('set_float_precision %d' % prec)
                for i, bits in enumerate((21, 20, 1, 0x000FFFFFFFFFFFFF, 0x0010000000000000, 0x3FF8000000000000, 0x7FEFFFFFFFFFFFFF, 0x8000000000000015)):
                    impl.do('add / %s 4' % hexs(b'd%d' % i)); impl.do('set_float /%d %016x' % (i, bits))
                roundtrip_ops(impl, rng, stats, rec)
    correspondence(ctx, [fn5], props.proj_full, make_oracle(rec, known_hits), 'C01 write/read round trip', 'subnormals')

def gen_api_build(impl, rng):
    """a moderately sized tree of documented types through the API"""
    impl.do('add / %s 1' % hexs(b'grp'))
    impl.do('add / %s 7' % hexs(b'arr'))
    impl.do('add / %s 8' % hexs(b'lst'))
    for i in range(rng.range(3, 20)):
        ty = rng.choice([2, 3, 4, 5, 6])
        out = impl.do('add /0 %s %d' % (hexs(b'm%d' % i), ty))
        p = out.split(' ')[0]
        if p == 'null':
            continue
        kind = {2: 'int', 3: 'int64', 4: 'float', 5: 'string', 6: 'bool'}[ty]
        op = gen_api.set_op(rng, 'set_' + kind, p, kind)
        # finite floats only (the property's domain)
        if kind == 'float' and (int(op.split(' ')[-1], 16) >> 52) & 0x7ff == 0x7ff:
            op = 'set_float %s 3ff8000000000000' % p
        impl.do(op)
        if ty in (2, 3) and rng.chance(1, 3):
            impl.do('set_format %s 1' % p)
    ek = rng.choice(['int', 'int64', 'float', 'string', 'bool'])
    for i in range(rng.choice([0, 1, 5, 17, 33])):
        op = gen_api.set_op(rng, 'set_%s_elem' % ek, '/1 -1', ek)
        if ek == 'float' and (int(op.split(' ')[-1], 16) >> 52) & 0x7ff == 0x7ff:
            continue
        impl.do(op)
    for i in range(rng.choice([0, 2, 6])):
        ek2 = rng.choice(['int', 'string', 'bool'])
        impl.do(gen_api.set_op(rng, 'set_%s_elem' % ek2, '/2 -1', ek2))
    impl.do('add /2 - 1'); impl.do('add /2 - 8'); impl.do('add /2 - 7')
