#!/usr/bin/env python3
"""python3 tools/replay.py <replay.json>: re-run the recorded operations on the implementation
(harness rebuilt from /repo) and on the model, print both transcripts side by side."""
import json, os, shutil, sys
sys.path.insert(0, os.path.dirname(os.path.abspath(__file__)))
import vlib, props
r = json.load(open(sys.argv[1]))
print('property:', r.get('property'), ' kind:', r.get('kind'))
print('what:', r.get('what'))
ops = r.get('ops')
if not ops:
    print(json.dumps(r, indent=1)[:4000]); sys.exit(0)
work = os.path.join(vlib.WORK_ROOT, 'replay')
shutil.rmtree(work, ignore_errors=True); os.makedirs(work)
vlib.translate(); vlib.lake_build(['driver'])
exe, log = vlib.build_harness(os.path.join(work, 'h'), r.get('driver', 'drv_api.c'), r.get('link_extra', []))
io, rc, err = props.run_impl_batch(exe, os.path.join(work, 'scratch'), ops)
mo, _, _ = vlib.run_model(ops)
for o, a, b in zip(ops, io, mo + ['<none>'] * len(io)):
    flag = '' if a == b else '   <<< DIFFERS'
    print('op   :', o[:200]); print(' impl:', a[:300]); print(' model:', b[:300] + flag)
if rc != 0 or err.strip():
    print('implementation rc=%d stderr:\n%s' % (rc, err[-3000:]))
shutil.rmtree(work, ignore_errors=True)
